(* C10 - An accepted operation request satisfies every protocol rule and limit.
   Parser/Accept.v models operationparser over the decoded view of a request; hashing, base64url
   and multihash framing are computed by the model on the actual strings. *)
From Coq Require Import String List ZArith NArith Bool.
From SV Require Import Base.Bytes Parser.Protocol Hash.B64 Hash.Multihash Jws.Compact Resolve.Op Parser.Accept Parser.AcceptProofs
  Gen.Kernels GenTie.Parser GenTie.Table.
Import ListNotations.
Local Open Scope string_scope.
Local Open Scope list_scope.
Local Open Scope Z_scope.

(* the size gate comes before anything else, inclusive at the limit *)
Theorem C10_request_size : forall p b t v o, parse_operation p b t v = Some o -> rv_len v <= pp_max_op_size p.
Proof. exact accepted_request_within_size. Qed.
Print Assumptions C10_request_size.

Theorem C10_oversize_request_rejected : forall p b t v, rv_len v > pp_max_op_size p -> parse_operation p b t v = None.
Proof. exact oversize_request_rejected. Qed.
Print Assumptions C10_oversize_request_rejected.

Theorem C10_dispatch : forall p b t v o,
  parse_operation p b t v = Some o ->
  rv_schema_ok v = true /\
  ((eqs (rv_type v) "create" = true /\ parse_create p b v = Some o) \/
   (eqs (rv_type v) "update" = true /\ parse_update p b t v = Some o) \/
   (eqs (rv_type v) "deactivate" = true /\ parse_deactivate p b t v = Some o) \/
   (eqs (rv_type v) "recover" = true /\ parse_recover p b t v = Some o)).
Proof. exact parse_operation_dispatch. Qed.
Print Assumptions C10_dispatch.

(* intake acceptance implies all rules at once, per type.
   hash_field_ok  : length <= MaxOperationHashLength, well-formed multihash of an allowed algorithm
   delta_ok       : canonical delta <= MaxDeltaSize, non-empty patch list, every action enabled and
                    every patch valid, update commitment a valid hash field
   signed_rules   : suffix non-empty, reveal value a valid hash field, compact JWS with only alg/kid in
                    the protected header and an allowed algorithm, signing key present with allowed
                    curve and a nonce of NonceSize bytes, reveal value = hash of the signing key *)
Theorem C10_update_rules : forall p t v o,
  parse_update p false t v = Some o ->
  signed_rules p v /\ t = true /\ delta_ok p (rv_delta v) /\ hash_field_ok p (sv_delta_hash (rv_signed v)) /\
  (exists code c, get_multihash_code (dv_update_commitment (rv_delta v)) = Some code /\
                  get_commitment (jv_canonical (sv_key (rv_signed v))) code = Some c /\
                  c <> dv_update_commitment (rv_delta v)) /\
  po_ty o = Update /\ po_suffix o = rv_did_suffix v.
Proof. exact update_accept_implies_rules. Qed.
Print Assumptions C10_update_rules.

Theorem C10_recover_rules : forall p t v o,
  parse_recover p false t v = Some o ->
  signed_rules p v /\ t = true /\ sv_origin_ok (rv_signed v) = true /\ delta_ok p (rv_delta v) /\
  hash_field_ok p (sv_delta_hash (rv_signed v)) /\ hash_field_ok p (sv_recovery_commitment (rv_signed v)) /\
  (exists code c, get_multihash_code (sv_recovery_commitment (rv_signed v)) = Some code /\
                  get_commitment (jv_canonical (sv_key (rv_signed v))) code = Some c /\
                  c <> sv_recovery_commitment (rv_signed v)) /\
  dv_update_commitment (rv_delta v) <> sv_recovery_commitment (rv_signed v) /\
  po_ty o = Recover /\ po_suffix o = rv_did_suffix v.
Proof. exact recover_accept_implies_rules. Qed.
Print Assumptions C10_recover_rules.

Theorem C10_deactivate_rules : forall p t v o,
  parse_deactivate p false t v = Some o ->
  signed_rules p v /\ t = true /\ sv_did_suffix (rv_signed v) = rv_did_suffix v /\
  po_ty o = Deactivate /\ po_suffix o = rv_did_suffix v.
Proof. exact deactivate_accept_implies_rules. Qed.
Print Assumptions C10_deactivate_rules.

Theorem C10_create_rules : forall p v o,
  parse_create p false v = Some o ->
  sf_present (rv_suffix v) = true /\ hash_field_ok p (sf_recovery_commitment (rv_suffix v)) /\
  hash_field_ok p (sf_delta_hash (rv_suffix v)) /\ sf_origin_ok (rv_suffix v) = true /\
  delta_ok p (rv_delta v) /\
  is_valid_model_multihash (dv_canonical (rv_delta v)) (sf_delta_hash (rv_suffix v)) = true /\
  dv_update_commitment (rv_delta v) <> sf_recovery_commitment (rv_suffix v) /\
  po_ty o = Create /\ unique_suffix (sf_canonical (rv_suffix v)) (pp_hash_algs p) = Some (po_suffix o).
Proof. exact create_accept_implies_rules. Qed.
Print Assumptions C10_create_rules.

(* limits are inclusive and exact *)
Theorem C10_hash_length_limit : forall p mh, blen mh > pp_max_hash_len p -> validate_multihash p mh = false.
Proof. exact over_long_hash_rejected. Qed.
Print Assumptions C10_hash_length_limit.

Theorem C10_delta_size_limit : forall p d, blen (dv_canonical d) > pp_max_delta_size p -> validate_delta p d = false.
Proof. exact oversize_delta_rejected. Qed.
Print Assumptions C10_delta_size_limit.

(* the guards in the source (re-translated on every run) are these comparisons, each reading its
   own protocol parameter and no other *)
Theorem C10_code_guards : forall p len,
  small (MaxOperationSize p) -> small (MaxOperationHashLength p) -> small (MaxDeltaSize p) -> small (NonceSize p) ->
  gen_parser_opSizeGuard p len = (len >? MaxOperationSize p) /\
  gen_parser_hashLenGuard p len = (len >? MaxOperationHashLength p) /\
  gen_parser_deltaSizeGuard p len = (len >? MaxDeltaSize p) /\
  gen_parser_nonceGuard p len = negb (len =? NonceSize p).
Proof.
  exact (fun p len H1 H2 H3 H4 => conj (parser_opSizeGuard_tie p len H1) (conj (parser_hashLenGuard_tie p len H2)
           (conj (parser_deltaSizeGuard_tie p len H3) (parser_nonceGuard_tie p len H4)))).
Qed.
Print Assumptions C10_code_guards.

Theorem C10_each_limit_its_own_parameter :
  map (fun k => (k, assoc_params k)) ["parser_opSizeGuard"; "parser_hashLenGuard"; "parser_deltaSizeGuard"; "parser_nonceGuard"]
  = [("parser_opSizeGuard", ["MaxOperationSize"]); ("parser_hashLenGuard", ["MaxOperationHashLength"]);
     ("parser_deltaSizeGuard", ["MaxDeltaSize"]); ("parser_nonceGuard", ["NonceSize"])].
Proof. exact parser_param_table. Qed.
Print Assumptions C10_each_limit_its_own_parameter.

From SV Require Import Base.Bytes Json.Ast Json.GoJson Json.GoJsonProofs Resolve.Op Jws.Compact Parser.Accept Parser.AcceptProofs Parser.ViewOfBytes Parser.ViewOfBytesProofs.
Local Close Scope Z_scope.

(* FROM THE REQUEST BYTES.  The view is computed inside Coq from the raw bytes (model of encoding/json and of go-jose's decoder, Json/GoJson.v, tied to the real decoders by gen_view): a request the parser accepts is within the size limit, is a JSON object, decodes into the schema and the request struct of its type, and is dispatched on its type *)
Theorem C10_bytes_accepted_request_is_json_object_within_size :
  forall (p : pproto) (batch t : bool) (b : bytes) (valid : list bool) 
           (origin : bool) (o : parsed),
         parse_operation_bytes p batch t b valid origin = Some o ->
         let v := view_of_request b valid origin in
         (Z.of_nat (Datatypes.length b) <= pp_max_op_size p)%Z /\
         (exists m : list (bytes * gj), std_parse b = Some (GObj m)) /\
         rv_schema_ok v = true /\
         rv_struct_ok v = true /\
         (rv_type v = bytes_of_string "create" /\ parse_create p batch v = Some o \/
          rv_type v = bytes_of_string "update" /\ parse_update p batch t v = Some o \/
          rv_type v = bytes_of_string "deactivate" /\ parse_deactivate p batch t v = Some o \/
          rv_type v = bytes_of_string "recover" /\ parse_recover p batch t v = Some o).
Proof. exact accepted_bytes_dispatch. Qed.
Print Assumptions C10_bytes_accepted_request_is_json_object_within_size.

(* acceptance of update request BYTES implies every rule, stated on the decoded struct *)
Theorem C10_bytes_update_rules :
  forall (p : pproto) (t : bool) (b : bytes) (valid : list bool) (origin : bool) (o : parsed),
         parse_operation_bytes p false t b valid origin = Some o ->
         let v := view_of_request b valid origin in
         rv_type v = bytes_of_string "update" ->
         exists r : update_m,
           unmarshal update_member update_zero b = Some r /\
           ur_did r <> [] /\
           hash_field_ok p (ur_reveal r) /\
           ur_signed r <> [] /\
           signed_rules p v /\
           t = true /\
           decoded_delta_ok p (ur_delta r) valid /\
           hash_field_ok p (sv_delta_hash (rv_signed v)) /\
           (exists (code : N) (c : bytes),
              Multihash.get_multihash_code (dv_update_commitment (rv_delta v)) = Some code /\
              Multihash.get_commitment (jv_canonical (sv_key (rv_signed v))) code = Some c /\
              c <> dv_update_commitment (rv_delta v)) /\ po_ty o = Update /\ po_suffix o = ur_did r.
Proof. exact update_bytes_accept_implies_rules. Qed.
Print Assumptions C10_bytes_update_rules.

(* likewise recover *)
Theorem C10_bytes_recover_rules :
  forall (p : pproto) (t : bool) (b : bytes) (valid : list bool) (origin : bool) (o : parsed),
         parse_operation_bytes p false t b valid origin = Some o ->
         let v := view_of_request b valid origin in
         rv_type v = bytes_of_string "recover" ->
         exists r : update_m,
           unmarshal update_member update_zero b = Some r /\
           ur_did r <> [] /\
           hash_field_ok p (ur_reveal r) /\
           signed_rules p v /\
           t = true /\
           origin = true /\
           decoded_delta_ok p (ur_delta r) valid /\
           hash_field_ok p (sv_delta_hash (rv_signed v)) /\
           hash_field_ok p (sv_recovery_commitment (rv_signed v)) /\
           (exists (code : N) (c : bytes),
              Multihash.get_multihash_code (sv_recovery_commitment (rv_signed v)) = Some code /\
              Multihash.get_commitment (jv_canonical (sv_key (rv_signed v))) code = Some c /\
              c <> sv_recovery_commitment (rv_signed v)) /\
           dv_update_commitment (rv_delta v) <> sv_recovery_commitment (rv_signed v) /\
           po_ty o = Recover /\ po_suffix o = ur_did r.
Proof. exact recover_bytes_accept_implies_rules. Qed.
Print Assumptions C10_bytes_recover_rules.

(* likewise deactivate *)
Theorem C10_bytes_deactivate_rules :
  forall (p : pproto) (t : bool) (b : bytes) (valid : list bool) (origin : bool) (o : parsed),
         parse_operation_bytes p false t b valid origin = Some o ->
         let v := view_of_request b valid origin in
         rv_type v = bytes_of_string "deactivate" ->
         exists r : deact_m,
           unmarshal deact_member deact_zero b = Some r /\
           de_did r <> [] /\
           hash_field_ok p (de_reveal r) /\
           signed_rules p v /\
           t = true /\
           sv_did_suffix (rv_signed v) = de_did r /\ po_ty o = Deactivate /\ po_suffix o = de_did r.
Proof. exact deactivate_bytes_accept_implies_rules. Qed.
Print Assumptions C10_bytes_deactivate_rules.

(* likewise create; the suffix is the multihash of the canonical form of the decoded suffix data *)
Theorem C10_bytes_create_rules :
  forall (p : pproto) (t : bool) (b : bytes) (valid : list bool) (origin : bool) (o : parsed),
         parse_operation_bytes p false t b valid origin = Some o ->
         let v := view_of_request b valid origin in
         rv_type v = bytes_of_string "create" ->
         exists (r : create_m) (s : suffix_m),
           unmarshal create_member create_zero b = Some r /\
           cr_suffix r = Some s /\
           hash_field_ok p (sm_rec s) /\
           hash_field_ok p (sm_delta_hash s) /\
           origin = true /\
           decoded_delta_ok p (cr_delta r) valid /\
           Multihash.is_valid_model_multihash (dv_canonical (rv_delta v)) (sm_delta_hash s) = true /\
           dv_update_commitment (rv_delta v) <> sm_rec s /\
           po_ty o = Create /\
           Multihash.unique_suffix (canonical_of (suffix_json s)) (pp_hash_algs p) =
           Some (po_suffix o).
Proof. exact create_bytes_accept_implies_rules. Qed.
Print Assumptions C10_bytes_create_rules.

(* arbitrary bytes: over the size limit *)
Theorem C10_bytes_oversize_rejected :
  forall (p : pproto) (batch t : bool) (b : list Byte.byte) (valid : list bool)
           (origin : bool),
         (Z.of_nat (Datatypes.length b) > pp_max_op_size p)%Z ->
         parse_operation_bytes p batch t b valid origin = None.
Proof. exact oversize_bytes_rejected. Qed.
Print Assumptions C10_bytes_oversize_rejected.

(* arbitrary bytes: not JSON means rejected (the decoder model is total: a verdict for every byte string) *)
Theorem C10_bytes_invalid_json_rejected :
  forall (p : pproto) (batch t : bool) (b : bytes) (valid : list bool) (origin : bool),
         std_parse b = None -> parse_operation_bytes p batch t b valid origin = None.
Proof. exact invalid_json_bytes_rejected. Qed.
Print Assumptions C10_bytes_invalid_json_rejected.

(* the decoder model never rejects for lack of fuel *)
Theorem C10_decoder_fuel_never_decides :
  forall (lim : option N) (b : bytes) (k : nat),
         match pvalue (go_fuel b + k) lim 0 b with
         | Some (v, rest) => match skip_ws rest with
                             | [] => Some v
                             | _ :: _ => None
                             end
         | None => None
         end = go_parse lim b.
Proof. exact go_parse_any_fuel. Qed.
Print Assumptions C10_decoder_fuel_never_decides.

(* decoding the canonical text of a value returns that value (round trip with the JCS printer of C07) *)
Theorem C10_canonical_text_decodes_to_its_value :
  forall (v : json) (lim : option N) (ws : bytes),
         gwf v ->
         JcsProofs.top_shape v ->
         depth_fits lim 0 v ->
         all_space ws = true ->
         exists t : gj,
           go_parse lim (Jcs.print_canonical v ++ ws) = Some t /\
           to_iface t = Some (JcsProofs.cnorm v).
Proof. exact decode_canonical_text. Qed.
Print Assumptions C10_canonical_text_decodes_to_its_value.

From SV Require Import Base.Bytes Hash.B64 Hash.Multihash Resolve.Op Parser.Accept Parser.Exact.
Local Close Scope Z_scope.

(* validateMultihash accepts exactly: length <= MaxOperationHashLength (inclusive) and allowed algorithm *)
Theorem C10_validate_multihash_iff :
  forall (p : pproto) (mh : bytes),
         validate_multihash p mh = true <->
         (blen mh <= pp_max_hash_len p)%Z /\ is_computed_using mh (pp_hash_algs p) = true.
Proof. exact validate_multihash_iff. Qed.
Print Assumptions C10_validate_multihash_iff.

(* ParseOperation accepts exactly: length <= MaxOperationSize (inclusive) and the size-independent rest accepts *)
Theorem C10_size_gate_iff :
  forall (p : pproto) (b t : bool) (v : req_view) (o : parsed),
         parse_operation p b t v = Some o <->
         (rv_len v <= pp_max_op_size p)%Z /\ parse_after_gate p b t v = Some o.
Proof. exact size_gate_iff. Qed.
Print Assumptions C10_size_gate_iff.

(* validateNonce accepts exactly: empty, or base64url of exactly NonceSize bytes *)
Theorem C10_validate_nonce_iff :
  forall (p : pproto) (n : bytes),
         validate_nonce p n = true <->
         n = [] \/ (exists b : bytes, b64_decode n = Some b /\ blen b = pp_nonce_size p).
Proof. exact validate_nonce_iff. Qed.
Print Assumptions C10_validate_nonce_iff.

(* ValidateDelta accepts exactly: canonical size <= MaxDeltaSize (inclusive) and the size-independent rest accepts *)
Theorem C10_validate_delta_iff :
  forall (p : pproto) (d : delta_view),
         validate_delta p d = true <->
         (blen (dv_canonical d) <= pp_max_delta_size p)%Z /\ validate_delta_nosize p d = true.
Proof. exact validate_delta_iff. Qed.
Print Assumptions C10_validate_delta_iff.

(* the numeric parameters influence parse_operation only through the verdicts of the guards evaluated for this type and mode *)
Theorem C10_guards_determine_result :
  forall (p q : pproto) (v : req_view) (b t : bool),
         agree b p q v -> parse_operation p b t v = parse_operation q b t v.
Proof. exact agree_parse_operation. Qed.
Print Assumptions C10_guards_determine_result.

(* protocols differing only in MaxOperationSize with the same size verdict give the same parse result *)
Theorem C10_max_op_size_independence :
  forall (p q : pproto) (b t : bool) (v : req_view),
         differ_only_op_size p q ->
         op_size_guard p v = op_size_guard q v -> parse_operation p b t v = parse_operation q b t v.
Proof. exact max_op_size_independence. Qed.
Print Assumptions C10_max_op_size_independence.

(* same for MaxOperationHashLength (verdict on the checked hash fields) *)
Theorem C10_max_hash_len_independence :
  forall (p q : pproto) (b t : bool) (v : req_view),
         differ_only_hash_len p q ->
         Forall (fun h : bytes => hash_len_guard p h = hash_len_guard q h) (checked_hash_fields b v) ->
         parse_operation p b t v = parse_operation q b t v.
Proof. exact max_hash_len_independence. Qed.
Print Assumptions C10_max_hash_len_independence.

(* same for MaxDeltaSize; irrelevant in batch mode and for deactivate *)
Theorem C10_max_delta_size_independence :
  forall (p q : pproto) (b t : bool) (v : req_view),
         differ_only_delta_size p q ->
         (delta_size_checked b v = true -> delta_size_guard p v = delta_size_guard q v) ->
         parse_operation p b t v = parse_operation q b t v.
Proof. exact max_delta_size_independence. Qed.
Print Assumptions C10_max_delta_size_independence.

(* same for NonceSize; irrelevant for create *)
Theorem C10_nonce_size_independence :
  forall (p q : pproto) (b t : bool) (v : req_view),
         differ_only_nonce_size p q ->
         (nonce_checked v = true -> nonce_guard p v = nonce_guard q v) ->
         parse_operation p b t v = parse_operation q b t v.
Proof. exact nonce_size_independence. Qed.
Print Assumptions C10_nonce_size_independence.

(* MaxOperationTimeDelta is not read by parse_operation *)
Theorem C10_time_delta_independence :
  forall (p q : pproto) (b t : bool) (v : req_view),
         same_algs p q ->
         pp_max_op_size p = pp_max_op_size q ->
         pp_max_hash_len p = pp_max_hash_len q ->
         pp_max_delta_size p = pp_max_delta_size q ->
         pp_nonce_size p = pp_nonce_size q -> parse_operation p b t v = parse_operation q b t v.
Proof. exact time_delta_independence. Qed.
Print Assumptions C10_time_delta_independence.

(* a request accepted under some limits is accepted with the same result when any of the three size limits grows *)
Theorem C10_limits_monotone :
  forall (p q : pproto) (b t : bool) (v : req_view) (o : parsed),
         more_permissive p q -> parse_operation p b t v = Some o -> parse_operation q b t v = Some o.
Proof. exact parse_operation_mono. Qed.
Print Assumptions C10_limits_monotone.

(* accepted under some MaxOperationSize => accepted under L iff length <= L *)
Theorem C10_max_op_size_threshold :
  forall (p q : pproto) (b t : bool) (v : req_view) (o : parsed),
         differ_only_op_size p q ->
         parse_operation p b t v = Some o ->
         parse_operation q b t v = (if op_size_guard q v then None else Some o).
Proof. exact max_op_size_threshold. Qed.
Print Assumptions C10_max_op_size_threshold.

(* accepted under some MaxOperationHashLength => accepted under L iff every checked hash string has length <= L *)
Theorem C10_max_hash_len_threshold :
  forall (p q : pproto) (b t : bool) (v : req_view) (o : parsed),
         differ_only_hash_len p q ->
         parse_operation p b t v = Some o ->
         parse_operation q b t v =
         (if existsb (hash_len_guard q) (checked_hash_fields b v) then None else Some o).
Proof. exact max_hash_len_threshold. Qed.
Print Assumptions C10_max_hash_len_threshold.

(* accepted under some MaxDeltaSize => accepted under L iff the delta is not validated by the parser or its canonical size <= L *)
Theorem C10_max_delta_size_threshold :
  forall (p q : pproto) (b t : bool) (v : req_view) (o : parsed),
         differ_only_delta_size p q ->
         parse_operation p b t v = Some o ->
         parse_operation q b t v =
         (if delta_size_checked b v && delta_size_guard q v then None else Some o).
Proof. exact max_delta_size_threshold. Qed.
Print Assumptions C10_max_delta_size_threshold.

(* accepted under some NonceSize => accepted under N iff the nonce is not checked or valid for N *)
Theorem C10_nonce_size_threshold :
  forall (p q : pproto) (b t : bool) (v : req_view) (o : parsed),
         differ_only_nonce_size p q ->
         parse_operation p b t v = Some o ->
         parse_operation q b t v =
         (if nonce_checked v && negb (nonce_guard q v) then None else Some o).
Proof. exact nonce_size_threshold. Qed.
Print Assumptions C10_nonce_size_threshold.

(* a non-empty nonce valid for one NonceSize is invalid for every other *)
Theorem C10_nonce_size_exact :
  forall (p q : pproto) (n : list Byte.byte),
         n <> [] ->
         validate_nonce p n = true ->
         pp_nonce_size q <> pp_nonce_size p -> validate_nonce q n = false.
Proof. exact nonce_size_exact. Qed.
Print Assumptions C10_nonce_size_exact.

(* acceptance implies every guard evaluated for the type and mode passed (hash fields, delta, nonce) *)
Theorem C10_accepted_checks_passed :
  forall (p : pproto) (b t : bool) (v : req_view) (o : parsed),
         parse_operation p b t v = Some o ->
         Forall (fun h : bytes => validate_multihash p h = true) (checked_hash_fields b v) /\
         (delta_size_checked b v = true -> validate_delta p (rv_delta v) = true) /\
         (nonce_checked v = true -> nonce_guard p v = true).
Proof. exact accepted_checks_passed. Qed.
Print Assumptions C10_accepted_checks_passed.

From SV Require Import Base.Bytes Json.Ast Json.GoJson Resolve.Op Doc.Validator Parser.Accept Parser.AcceptProofs Parser.ViewOfBytes Parser.ViewOfBytesProofs Parser.ViewValidated Parser.ViewValidatedProofs.
Local Close Scope Z_scope.

(* the request view with the C18 validator model plugged in is the view of ViewOfBytes on the verdict list COMPUTED from the bytes (valid_of_bytes = validate_patch on every decoded patch) - the list is no longer a fact *)
Theorem C10_validated_view_is_view_with_computed_verdicts :
  forall (uri_ok : bytes -> bool) (uri_parse : bytes -> option bytes)
           (ov : option json -> bool) (b : bytes),
         validated_view uri_ok uri_parse ov b =
         view_of_request b (valid_of_bytes uri_ok uri_parse b) (origin_of_bytes ov b).
Proof. exact validated_view_is_view_of_request. Qed.
Print Assumptions C10_validated_view_is_view_with_computed_verdicts.

(* hence the parser model on bytes with computed verdicts is parse_operation_bytes on that list: every C10_bytes_* theorem applies with valid := valid_of_bytes b *)
Theorem C10_validated_parse_is_bytes_parse :
  forall (uri_ok : bytes -> bool) (uri_parse : bytes -> option bytes) 
           (p : pproto) (batch t : bool) (ov : option json -> bool) (b : bytes),
         parse_operation_validated uri_ok uri_parse p batch t ov b =
         parse_operation_bytes p batch t b (valid_of_bytes uri_ok uri_parse b) (origin_of_bytes ov b).
Proof. exact parse_operation_validated_is_bytes. Qed.
Print Assumptions C10_validated_parse_is_bytes_parse.

(* the verdict list inside the view is exactly one computed verdict per decoded patch, in order *)
Theorem C10_verdict_list_one_per_decoded_patch :
  forall (uri_ok : bytes -> bool) (uri_parse : bytes -> option bytes)
           (ov : option json -> bool) (b : bytes),
         dv_patch_valid (rv_delta (validated_view uri_ok uri_parse ov b)) =
         valid_of_bytes uri_ok uri_parse b.
Proof. exact validated_view_valid. Qed.
Print Assumptions C10_verdict_list_one_per_decoded_patch.

(* whatever the bytes, no decoded patch (patch.Patch, a Go map) has two members of the same name - including patches merged from repeated "patches" arrays and stale backing-array elements *)
Theorem C10_decoded_patches_have_distinct_member_names :
  forall b : bytes, Forall patchv_wf (dq_patches (decode_request b)).
Proof. exact decoded_patches_wf. Qed.
Print Assumptions C10_decoded_patches_have_distinct_member_names.

(* Patch.GetAction as read by the parser view (first occurrence, table known_actions) and by the validator model (last occurrence, table actionConfig) coincide on patches with distinct member names *)
Theorem C10_get_action_same_in_both_models :
  forall p : patchv, patchv_wf p -> action_of p = patch_action (json_of_patchv p).
Proof. exact action_of_patch_action. Qed.
Print Assumptions C10_get_action_same_in_both_models.

(* the action list of the view is patch_action of the validator model on the decoded patches *)
Theorem C10_view_actions_are_validator_actions :
  forall (uri_ok : bytes -> bool) (uri_parse : bytes -> option bytes)
           (ov : option json -> bool) (b : bytes),
         dv_actions (rv_delta (validated_view uri_ok uri_parse ov b)) =
         map patch_action (decoded_patches b).
Proof. exact validated_view_actions. Qed.
Print Assumptions C10_view_actions_are_validator_actions.

(* for every byte string the patch loop of ValidateDelta in the parser model (patches_ok on the view) equals the C18 model's loop validate_delta_patches (>= 1 patch; action configured, enabled, Validate) on the patches decoded from the bytes *)
Theorem C10_delta_loop_is_the_C18_loop :
  forall (uri_ok : bytes -> bool) (uri_parse : bytes -> option bytes) 
           (p : pproto) (ov : option json -> bool) (b : bytes),
         let d := rv_delta (validated_view uri_ok uri_parse ov b) in
         delta_patches_validated uri_ok uri_parse p b =
         match dv_actions d with
         | [] => false
         | _ :: _ => patches_ok p (dv_actions d) (dv_patch_valid d)
         end.
Proof. exact delta_loop_agrees. Qed.
Print Assumptions C10_delta_loop_is_the_C18_loop.

(* validate_delta = delta present && C18 loop on the decoded patches && update commitment multihash && canonical size within MaxDeltaSize *)
Theorem C10_validate_delta_in_C18_terms :
  forall (uri_ok : bytes -> bool) (uri_parse : bytes -> option bytes) 
           (p : pproto) (ov : option json -> bool) (b : bytes),
         let d := rv_delta (validated_view uri_ok uri_parse ov b) in
         validate_delta p d =
         dv_present d && delta_patches_validated uri_ok uri_parse p b &&
         validate_multihash p (dv_update_commitment d) &&
         negb (blen (dv_canonical d) >? pp_max_delta_size p)%Z.
Proof. exact validate_delta_validated. Qed.
Print Assumptions C10_validate_delta_in_C18_terms.

(* create/update/recover accepted at intake, as bytes: the decoded delta has >= 1 patch and every decoded patch satisfies the validator model and carries a configured action enabled by the protocol *)
Theorem C10_accepted_request_patches_validated :
  forall (uri_ok : bytes -> bool) (uri_parse : bytes -> option bytes) 
           (p : pproto) (t : bool) (ov : option json -> bool) (b : bytes) 
           (o : parsed),
         parse_operation_validated uri_ok uri_parse p false t ov b = Some o ->
         po_ty o <> Deactivate -> patches_validated uri_ok uri_parse p b.
Proof. exact accepted_request_patches_validated. Qed.
Print Assumptions C10_accepted_request_patches_validated.

(* a decoded patch that the validator model refuses makes intake reject the request, whatever else the bytes contain *)
Theorem C10_refused_patch_rejects_request :
  forall (uri_ok : bytes -> bool) (uri_parse : bytes -> option bytes) 
           (p : pproto) (t : bool) (ov : option json -> bool) (b : bytes) 
           (pt : patchv),
         In pt (dq_patches (decode_request b)) ->
         validate_patch uri_ok uri_parse (json_of_patchv pt) = false ->
         forall o : parsed,
         parse_operation_validated uri_ok uri_parse p false t ov b = Some o -> po_ty o = Deactivate.
Proof. exact refused_patch_rejects. Qed.
Print Assumptions C10_refused_patch_rejects_request.

(* the update rules of C10_bytes_update_rules with the verdict list computed, plus validation of every decoded patch *)
Theorem C10_update_rules_with_computed_verdicts :
  forall (uri_ok : bytes -> bool) (uri_parse : bytes -> option bytes) 
           (p : pproto) (t : bool) (ov : option json -> bool) (b : bytes) 
           (o : parsed),
         parse_operation_validated uri_ok uri_parse p false t ov b = Some o ->
         rv_type (validated_view uri_ok uri_parse ov b) = bytes_of_string "update" ->
         exists r : update_m,
           unmarshal update_member update_zero b = Some r /\
           ur_did r <> [] /\
           hash_field_ok p (ur_reveal r) /\
           ur_signed r <> [] /\
           signed_rules p (validated_view uri_ok uri_parse ov b) /\
           t = true /\
           decoded_delta_ok p (ur_delta r) (valid_of_bytes uri_ok uri_parse b) /\
           patches_validated uri_ok uri_parse p b /\ po_ty o = Update /\ po_suffix o = ur_did r.
Proof. exact update_validated_accept_implies_rules. Qed.
Print Assumptions C10_update_rules_with_computed_verdicts.

(* a real signed update (add-services + ietf-json-patch) is accepted by the model from its bytes alone *)
Theorem C10_validated_example_accepted :
  option_map (fun o : parsed => (po_ty o, po_suffix o))
           (parse_operation_validated ValidatorProofs.uri_ok_demo ValidatorProofs.uri_parse_demo
              ex_proto false true ex_ov ex_vl_request) =
         Some (Update, bytes_of_string "EiD-W22RJooPxnQWIomWzlbaQXTNpZJ9k5buHUdqGxX_1A").
Proof. exact ex_vl_accepted. Qed.
Print Assumptions C10_validated_example_accepted.

(* the same request with the JSON-patch move aimed at /service/0: verdicts [true; false], rejected at intake, parsed in batch mode *)
Theorem C10_validated_example_refused :
  (valid_of_bytes ValidatorProofs.uri_ok_demo ValidatorProofs.uri_parse_demo ex_vl_refused,
          parse_operation_validated ValidatorProofs.uri_ok_demo ValidatorProofs.uri_parse_demo
            ex_proto false true ex_ov ex_vl_refused,
          option_map po_ty
            (parse_operation_validated ValidatorProofs.uri_ok_demo ValidatorProofs.uri_parse_demo
               ex_proto true true ex_ov ex_vl_refused)) = ([true; false], None, Some Update).
Proof. exact ex_vl_refused_rejected. Qed.
Print Assumptions C10_validated_example_refused.

(* the same bytes under a protocol that does not enable ietf-json-patch are rejected although every patch is valid *)
Theorem C10_validated_example_action_disabled :
  parse_operation_validated ValidatorProofs.uri_ok_demo ValidatorProofs.uri_parse_demo
           {|
             pp_max_op_size := 6000;
             pp_max_hash_len := 100;
             pp_max_delta_size := 3000;
             pp_nonce_size := 16;
             pp_time_delta := 7200;
             pp_hash_algs := [18%N; 19%N];
             pp_sig_algs := pp_sig_algs ex_proto;
             pp_key_algs := pp_key_algs ex_proto;
             pp_patches :=
               map bytes_of_string
                 ["replace"%string; "add-public-keys"%string; "add-services"%string]
           |} false true ex_ov ex_vl_request = None.
Proof. exact ex_vl_action_disabled. Qed.
Print Assumptions C10_validated_example_action_disabled.

(* with a URI oracle that refuses the endpoint the first patch is refused and the request rejected *)
Theorem C10_validated_example_oracle_matters :
  (valid_of_bytes (fun _ : bytes => false) ValidatorProofs.uri_parse_demo ex_vl_request,
          parse_operation_validated (fun _ : bytes => false) ValidatorProofs.uri_parse_demo ex_proto
            false true ex_ov ex_vl_request) = ([false; true], None).
Proof. exact ex_vl_oracle_matters. Qed.
Print Assumptions C10_validated_example_oracle_matters.
