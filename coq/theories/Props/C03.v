(* C03 - Resolution follows the Sidetree state machine, partial failures included.
   Spec.v holds the reference machine (step: one rule per operation type and outcome; run: the
   first eligible operation consumes the commitment in force; Reach: create, recovery chain,
   update chain after the last full operation). *)
From Coq Require Import List ZArith Bool.
From SV Require Import Parser.Window Resolve.Op Resolve.Apply Resolve.Process Resolve.Spec Resolve.Chain
  Resolve.Inert Resolve.Terminal Resolve.Refine Resolve.StepTable.
Import ListNotations.
Local Open Scope Z_scope.

(* the applier is exactly the step relation of the reference machine *)
Theorem C03_apply_is_step : forall s o s', step s o s' <-> apply o s = Some s'.
Proof. exact step_iff_apply. Qed.
Print Assumptions C03_apply_is_step.

(* soundness and completeness of resolution w.r.t. the reference machine *)
Theorem C03_resolve_refines_machine : forall fops c0 s ap,
  no_zero_reveal fops -> resolve_core fops = inr (Some (c0, s, ap)) -> Reach fops s.
Proof. exact resolve_refines_spec. Qed.
Print Assumptions C03_resolve_refines_machine.

Theorem C03_machine_refines_resolve : forall fops s,
  no_zero_reveal fops -> Reach fops s -> exists c0 ap, resolve_core fops = inr (Some (c0, s, ap)).
Proof. exact spec_refines_resolve. Qed.
Print Assumptions C03_machine_refines_resolve.

Theorem C03_machine_deterministic : forall fops s s', Reach fops s -> Reach fops s' -> s = s'.
Proof. exact reach_deterministic. Qed.
Print Assumptions C03_machine_deterministic.

(* the partial-failure clauses, as equations on the applier *)
Theorem C03_update_bad_delta_ignored : forall o s,
  ty o = Update -> (dhash_ok o = false \/ dvalid o = false) -> apply o s = None.
Proof. exact update_bad_delta_ignored. Qed.
Print Assumptions C03_update_bad_delta_ignored.

Theorem C03_update_patch_fail_advances_commitment_only : forall o s s',
  ty o = Update -> apply o s = Some s' -> patch_ok o = false ->
  doc s' = doc s /\ upd s' = upd_c o /\ rec s' = rec s.
Proof. exact update_patch_fail_advances. Qed.
Print Assumptions C03_update_patch_fail_advances_commitment_only.

Theorem C03_create_effect : forall o s',
  ty o = Create -> apply o init_state = Some s' ->
  rec s' = rec_c o /\ aorigin s' = origin o /\ created s' = time o /\ canon s' = cref o /\ deact s' = false /\
  ( (dhash_ok o = false \/ dvalid o = false) -> doc s' = Some [] /\ upd s' = 0 ) /\
  ( dhash_ok o = true -> dvalid o = true -> patch_ok o = false -> doc s' = Some [] /\ upd s' = upd_c o ) /\
  ( dhash_ok o = true -> dvalid o = true -> patch_ok o = true -> doc s' = Some [delta o] /\ upd s' = upd_c o ).
Proof. exact create_effect. Qed.
Print Assumptions C03_create_effect.

Theorem C03_recover_effect : forall o s s',
  ty o = Recover -> apply o s = Some s' ->
  rec s' = rec_c o /\ aorigin s' = origin o /\ created s' = created s /\ canon s' = cref o /\ deact s' = false /\
  ( (dhash_ok o = false \/ dvalid o = false) -> doc s' = Some [] /\ upd s' = 0 ) /\
  ( dhash_ok o = true -> dvalid o = true -> (op_in_window o = false \/ patch_ok o = false) -> doc s' = Some [] /\ upd s' = upd_c o ) /\
  ( dhash_ok o = true -> dvalid o = true -> op_in_window o = true -> patch_ok o = true -> doc s' = Some [delta o] /\ upd s' = upd_c o ).
Proof. exact recover_effect. Qed.
Print Assumptions C03_recover_effect.

Theorem C03_deactivate_effect : forall o s s',
  ty o = Deactivate -> apply o s = Some s' ->
  deact s' = true /\ doc s' = Some [] /\ upd s' = 0 /\ rec s' = 0 /\ created s' = created s /\ canon s' = canon s.
Proof. exact deactivate_effect. Qed.
Print Assumptions C03_deactivate_effect.

(* each commitment is consumed at most once, and exactly by the applied operations *)
Theorem C03_commitments_consumed_once : forall sel ops s s' cs ap,
  follows sel ops -> chain (length ops) sel ops s [] = Some (s', cs, ap) ->
  NoDup cs /\ cs = map reveal_c ap.
Proof. exact commitments_consumed_once. Qed.
Print Assumptions C03_commitments_consumed_once.

(* resolution terminates on every history: the fuel (number of operations) is never exhausted *)
Theorem C03_resolution_terminates : forall fops, resolve_core fops <> inr None.
Proof. exact resolve_core_total. Qed.
Print Assumptions C03_resolution_terminates.

Theorem C03_chain_terminates : forall sel ops s, follows sel ops -> run_chain sel ops s <> None.
Proof. exact run_chain_total. Qed.
Print Assumptions C03_chain_terminates.
