(* C03 - Resolution follows the Sidetree state machine, partial failures included.
   Spec.v holds the reference machine (step: one rule per operation type and outcome; run: the
   first eligible operation consumes the commitment in force; Reach: create, recovery chain,
   update chain after the last full operation). *)
From Coq Require Import List ZArith Bool.
From SV Require Import Parser.Window Resolve.Op Resolve.Apply Resolve.Process Resolve.Spec Resolve.Chain
  Resolve.Inert Resolve.Terminal Resolve.Refine Resolve.StepTable.
Import ListNotations.
Local Open Scope Z_scope.

(* the applier is exactly the step relation of the reference machine *)
Theorem C03_apply_is_step : forall s o s', step s o s' <-> apply o s = Some s'.
Proof. exact step_iff_apply. Qed.
Print Assumptions C03_apply_is_step.

(* soundness and completeness of resolution w.r.t. the reference machine *)
Theorem C03_resolve_refines_machine : forall fops c0 s ap,
  no_zero_reveal fops -> resolve_core fops = inr (Some (c0, s, ap)) -> Reach fops s.
Proof. exact resolve_refines_spec. Qed.
Print Assumptions C03_resolve_refines_machine.

Theorem C03_machine_refines_resolve : forall fops s,
  no_zero_reveal fops -> Reach fops s -> exists c0 ap, resolve_core fops = inr (Some (c0, s, ap)).
Proof. exact spec_refines_resolve. Qed.
Print Assumptions C03_machine_refines_resolve.

Theorem C03_machine_deterministic : forall fops s s', Reach fops s -> Reach fops s' -> s = s'.
Proof. exact reach_deterministic. Qed.
Print Assumptions C03_machine_deterministic.

(* the partial-failure clauses, as equations on the applier *)
Theorem C03_update_bad_delta_ignored : forall o s,
  ty o = Update -> (dhash_ok o = false \/ dvalid o = false) -> apply o s = None.
Proof. exact update_bad_delta_ignored. Qed.
Print Assumptions C03_update_bad_delta_ignored.

Theorem C03_update_patch_fail_advances_commitment_only : forall o s s',
  ty o = Update -> apply o s = Some s' -> patch_ok o = false ->
  doc s' = doc s /\ upd s' = upd_c o /\ rec s' = rec s.
Proof. exact update_patch_fail_advances. Qed.
Print Assumptions C03_update_patch_fail_advances_commitment_only.

Theorem C03_create_effect : forall o s',
  ty o = Create -> apply o init_state = Some s' ->
  rec s' = rec_c o /\ aorigin s' = origin o /\ created s' = time o /\ canon s' = cref o /\ deact s' = false /\
  ( (dhash_ok o = false \/ dvalid o = false) -> doc s' = Some [] /\ upd s' = 0 ) /\
  ( dhash_ok o = true -> dvalid o = true -> patch_ok o = false -> doc s' = Some [] /\ upd s' = upd_c o ) /\
  ( dhash_ok o = true -> dvalid o = true -> patch_ok o = true -> doc s' = Some [delta o] /\ upd s' = upd_c o ).
Proof. exact create_effect. Qed.
Print Assumptions C03_create_effect.

Theorem C03_recover_effect : forall o s s',
  ty o = Recover -> apply o s = Some s' ->
  rec s' = rec_c o /\ aorigin s' = origin o /\ created s' = created s /\ canon s' = cref o /\ deact s' = false /\
  ( (dhash_ok o = false \/ dvalid o = false) -> doc s' = Some [] /\ upd s' = 0 ) /\
  ( dhash_ok o = true -> dvalid o = true -> (op_in_window o = false \/ patch_ok o = false) -> doc s' = Some [] /\ upd s' = upd_c o ) /\
  ( dhash_ok o = true -> dvalid o = true -> op_in_window o = true -> patch_ok o = true -> doc s' = Some [delta o] /\ upd s' = upd_c o ).
Proof. exact recover_effect. Qed.
Print Assumptions C03_recover_effect.

Theorem C03_deactivate_effect : forall o s s',
  ty o = Deactivate -> apply o s = Some s' ->
  deact s' = true /\ doc s' = Some [] /\ upd s' = 0 /\ rec s' = 0 /\ created s' = created s /\ canon s' = canon s.
Proof. exact deactivate_effect. Qed.
Print Assumptions C03_deactivate_effect.

(* each commitment is consumed at most once, and exactly by the applied operations *)
Theorem C03_commitments_consumed_once : forall sel ops s s' cs ap,
  follows sel ops -> chain (length ops) sel ops s [] = Some (s', cs, ap) ->
  NoDup cs /\ cs = map reveal_c ap.
Proof. exact commitments_consumed_once. Qed.
Print Assumptions C03_commitments_consumed_once.

(* resolution terminates on every history: the fuel (number of operations) is never exhausted *)
Theorem C03_resolution_terminates : forall fops, resolve_core fops <> inr None.
Proof. exact resolve_core_total. Qed.
Print Assumptions C03_resolution_terminates.

Theorem C03_chain_terminates : forall sel ops s, follows sel ops -> run_chain sel ops s <> None.
Proof. exact run_chain_total. Qed.
Print Assumptions C03_chain_terminates.

From SV Require Import Resolve.Op Resolve.Apply Resolve.Process Resolve.Order Resolve.Terminal Resolve.Extend Resolve.Earliest Resolve.Chrono.
Local Close Scope Z_scope.

(* the resolved state is the left fold of Apply over the chosen create followed by the applied operations, in the order of application (no hypothesis) *)
Theorem C03_resolved_state_is_fold :
  forall (fops : list aop) (c0 : aop) (s : state) (ap : list aop),
         resolve_core fops = inr (Some (c0, s, ap)) -> state_after c0 ap = Some s.
Proof. exact resolved_state_is_fold. Qed.
Print Assumptions C03_resolved_state_is_fold.

(* independent chronological characterisation: on a strictly ordered, causal history without empty reveals, Resolve (create choice, state, effective applied operations, errors) equals ONE pass over the operations in processing order in which an operation takes effect iff it reveals the commitment in force when it is reached and Apply accepts it; forks are allowed *)
Theorem C03_resolve_is_chronological_pass :
  forall fops : list aop,
         strictly_ordered fops ->
         no_zero_reveal fops -> causal fops -> resolve_core fops = chrono_outcome fops.
Proof. exact resolve_core_is_chrono. Qed.
Print Assumptions C03_resolve_is_chronological_pass.

(* the state of the chronological pass is the left fold of Apply over the operations that took effect, in the order in which they are reached *)
Theorem C03_chronological_pass_is_fold :
  forall l : list aop,
         fold_apply (taken l init_state) init_state = Some (fst (fst (chrono l))).
Proof. exact chrono_is_fold. Qed.
Print Assumptions C03_chronological_pass_is_fold.

(* hence the resolved state is that fold *)
Theorem C03_resolved_state_chronological :
  forall (fops : list aop) (c0 : aop) (s : state) (ap : list aop),
         strictly_ordered fops ->
         no_zero_reveal fops ->
         causal fops ->
         resolve_core fops = inr (Some (c0, s, ap)) ->
         fold_apply (taken fops init_state) init_state = Some s /\ chrono fops = (s, Some c0, ap).
Proof. exact resolved_state_chronological. Qed.
Print Assumptions C03_resolved_state_chronological.

(* the ordering hypothesis holds for what prepare produces when the anchored operations are pairwise distinct with distinct coordinates *)
Theorem C03_prepared_strictly_ordered :
  forall pub unpub : list aop,
         stores_ok pub unpub ->
         NoDup pub -> key_inj pub -> strictly_ordered (sort_ops pub ++ sort_ops unpub).
Proof. exact prepared_strictly_ordered. Qed.
Print Assumptions C03_prepared_strictly_ordered.

(* store-level form *)
Theorem C03_resolve_full_is_chronological_pass :
  forall pub unpub : list aop,
         stores_ok pub unpub ->
         NoDup pub ->
         key_inj pub ->
         no_zero_reveal (pub ++ unpub) ->
         causal (sort_ops pub ++ sort_ops unpub) ->
         resolve_full pub unpub no_opts = chrono_outcome (sort_ops pub ++ sort_ops unpub).
Proof. exact resolve_full_is_chrono. Qed.
Print Assumptions C03_resolve_full_is_chronological_pass.

(* an update processed last that does not reveal the update commitment in force, or that Apply rejects, changes nothing (no hypothesis on the list: the first valid candidate in list order wins) *)
Theorem C03_appended_update_inert :
  forall (fops : list aop) (c0 : aop) (s : state) (ap : list aop) (o : aop),
         resolve_core fops = inr (Some (c0, s, ap)) ->
         ty o = Update ->
         reveal_c o <> upd s \/ apply o s = None ->
         resolve_core (fops ++ [o]) = inr (Some (c0, s, ap)).
Proof. exact update_snoc_inert. Qed.
Print Assumptions C03_appended_update_inert.

(* likewise for a recover / deactivate *)
Theorem C03_appended_full_inert :
  forall (fops : list aop) (c0 : aop) (s : state) (ap : list aop) (o : aop),
         resolve_core fops = inr (Some (c0, s, ap)) ->
         is_full o = true ->
         reveal_c o <> rec s \/ apply o s = None ->
         resolve_core (fops ++ [o]) = inr (Some (c0, s, ap)).
Proof. exact full_snoc_inert. Qed.
Print Assumptions C03_appended_full_inert.

(* a further create processed last changes nothing *)
Theorem C03_appended_create_inert :
  forall (fops : list aop) (c0 : aop) (s : state) (ap : list aop) (o : aop),
         processing_order (fops ++ [o]) ->
         resolve_core fops = inr (Some (c0, s, ap)) ->
         ty o = Create -> resolve_core (fops ++ [o]) = inr (Some (c0, s, ap)).
Proof. exact create_snoc_inert. Qed.
Print Assumptions C03_appended_create_inert.

(* the first valid create, processed after operations none of which reveals a commitment it installs, resolves to its own state with nothing applied *)
Theorem C03_first_create_defines :
  forall (l : list aop) (c : aop) (s0 : state),
         no_valid_create l ->
         ty c = Create ->
         apply c init_state = Some s0 ->
         no_zero_reveal l ->
         (forall q : aop, In q l -> not_ahead q c) ->
         resolve_core (l ++ [c]) = inr (Some (c, s0, [])).
Proof. exact first_create_snoc. Qed.
Print Assumptions C03_first_create_defines.

(* non-vacuity: the hypotheses hold for a history with a fork *)
Theorem C03_nonvacuous_fork :
  strictly_ordered c_fork /\ no_zero_reveal c_fork /\ causal c_fork.
Proof. exact c_fork_hyps. Qed.
Print Assumptions C03_nonvacuous_fork.

(* and for a full life cycle with operations before the create, an invalid create, a recover, a deactivate and operations after it *)
Theorem C03_nonvacuous_life :
  strictly_ordered c_life /\ no_zero_reveal c_life /\ causal c_life.
Proof. exact c_life_hyps. Qed.
Print Assumptions C03_nonvacuous_life.

(* causality cannot be dropped even for fork-free histories: an operation anchored before the operation that commits to its key is applied by Resolve (chain order), not by the chronological pass *)
Theorem C03_needs_causal :
  strictly_ordered c_out_of_order /\
         no_zero_reveal c_out_of_order /\
         NoDup (map reveal_c (filter (fun o : aop => negb (is_ty Create o)) c_out_of_order)) /\
         ~ causal c_out_of_order /\
         (exists s : state,
            resolve_core c_out_of_order = inr (Some (h_create, s, [h_upd1; k_bridge; k_orphan])) /\
            upd s = 23%Z) /\
         (exists s : state,
            chrono c_out_of_order = (s, Some h_create, [h_upd1; k_bridge]) /\ upd s = 22%Z).
Proof. exact needs_causal. Qed.
Print Assumptions C03_needs_causal.
