(* C14 - Reading batch files is safe against arbitrary CAS content.
   [anchor] is any anchor string over any CAS content as seen after the layers below the provider
   (CAS read, gunzip, JSON decoding, parser verdicts on individual entries). *)
From Coq Require Import List ZArith Bool Arith.
From SV Require Import Parser.Protocol Resolve.Op Batch.Files Batch.Safe Gen.Kernels GenTie.Provider.
Import ListNotations.
Local Open Scope Z_scope.

(* either an error or: as many operations as the anchor string says, pairwise distinct suffixes,
   read through validated files *)
Theorem C14_count_matches_anchor : forall L a ops,
  get_txn_operations L a = Some ops -> Z.of_nat (length ops) = a_count a.
Proof. exact count_matches_anchor. Qed.
Print Assumptions C14_count_matches_anchor.

Theorem C14_suffixes_distinct : forall L a ops,
  get_txn_operations L a = Some ops -> NoDup (map ro_sfx ops).
Proof. exact suffixes_distinct. Qed.
Print Assumptions C14_suffixes_distinct.

Theorem C14_success_structure : forall L a ops,
  get_txn_operations L a = Some ops ->
  a_syntax_ok a = true /\ Z.of_nat (length ops) = a_count a /\
  exists c b, read_file L (l_core_index L) (a_core a) = Some c /\ validate_core_index L c = true /\
              get_batch_files L c = Some b /\ assemble b = Some ops.
Proof. exact get_some. Qed.
Print Assumptions C14_success_structure.

(* every file that was used passed its validation: signed data parse, deltas are validated, the
   counts of index, proof and chunk files agree pairwise *)
Theorem C14_files_validated : forall L c b,
  get_batch_files L c = Some b ->
  bf_core b = c /\ counts_ok b = true /\
  (present (ci_proof c) = true -> exists p, bf_core_proof b = Some p /\ validate_core_proof p = true) /\
  (present (ci_proof c) = false -> bf_core_proof b = None) /\
  (present (ci_prov c) = false -> bf_prov b = None) /\
  (present (ci_prov c) = true -> exists pi pp ch, bf_prov b = Some (pi, pp, ch) /\ validate_prov_index L pi = true /\
        validate_chunk ch = true /\
        (present (pi_proof pi) = true -> exists q, pp = Some q /\ validate_prov_proof q = true) /\
        (present (pi_proof pi) = false -> pp = None)).
Proof. exact get_batch_files_some. Qed.
Print Assumptions C14_files_validated.

(* size limits: before and after decompression *)
Theorem C14_oversize_rejected : forall A L max (r : raw A), f_raw_size r > max -> read_file L max r = None.
Proof. exact (@oversize_raw_rejected). Qed.
Print Assumptions C14_oversize_rejected.

Theorem C14_decompression_bomb_rejected : forall A L max (r : raw A),
  f_size r > max * l_factor L -> read_file L max r = None.
Proof. exact (@oversize_decompressed_rejected). Qed.
Print Assumptions C14_decompression_bomb_rejected.

Theorem C14_accepted_file_within_limits : forall A L max (r : raw A) x,
  read_file L max r = Some x ->
  f_read_ok r = true /\ f_raw_size r <= max /\ f_decomp_ok r = true /\ f_size r <= max * l_factor L /\ f_parsed r = Some x.
Proof. exact (@read_file_some). Qed.
Print Assumptions C14_accepted_file_within_limits.

(* references: over-long URIs, missing and superfluous proof references *)
Theorem C14_long_uri_rejected : forall L a ops c,
  get_txn_operations L a = Some ops -> read_file L (l_core_index L) (a_core a) = Some c ->
  uri_len (ci_proof c) <= l_uri_len L /\ uri_len (ci_prov c) <= l_uri_len L.
Proof. exact long_uri_rejected. Qed.
Print Assumptions C14_long_uri_rejected.

Theorem C14_core_proof_reference_discipline : forall L c,
  validate_core_index L c = true ->
  (present (ci_proof c) = true <-> (0 < length (ci_recovers c) + length (ci_deactivates c))%nat).
Proof. exact proof_reference_discipline. Qed.
Print Assumptions C14_core_proof_reference_discipline.

Theorem C14_provisional_proof_reference_discipline : forall L p,
  validate_prov_index L p = true -> (present (pi_proof p) = true <-> (0 < length (pi_updates p))%nat).
Proof. exact prov_proof_reference_discipline. Qed.
Print Assumptions C14_provisional_proof_reference_discipline.

(* positional access never leaves the proof / chunk lists once the counts agree *)
Theorem C14_zip_in_range : forall ty refs proofs,
  (length refs <= length proofs)%nat ->
  Forall (fun o => ro_ty o = ty /\ exists p, In p proofs /\ ro_signed o = pe_signed p) (zip_ops ty refs proofs)
  /\ map ro_sfx (zip_ops ty refs proofs) = map or_sfx refs.
Proof. exact zip_ops_in_range. Qed.
Print Assumptions C14_zip_in_range.

Theorem C14_deltas_in_range : forall ops ds,
  (length ops <= length ds)%nat ->
  map ro_sfx (with_deltas ops ds) = map ro_sfx ops /\
  Forall (fun o => exists d, In d ds /\ ro_delta o = de_delta d) (with_deltas ops ds).
Proof. exact with_deltas_in_range. Qed.
Print Assumptions C14_deltas_in_range.

(* the guards in the source (re-translated on every run) are the model's *)
Theorem C14_code_size_guards : forall p A (max : Z) (r : raw A),
  small max -> small (max * MaxMemoryDecompressionFactor p) ->
  read_file (limits_of p) max r =
  if negb (f_read_ok r) then None
  else if gen_provider_sizeGuard p (f_raw_size r) max then None
  else if negb (f_decomp_ok r) then None
  else if gen_provider_decompGuard p (f_size r) (gen_provider_decompMax p max) then None
  else f_parsed r.
Proof. exact (fun p A => @provider_size_guards_tie p A). Qed.
Print Assumptions C14_code_size_guards.

Theorem C14_code_uri_guard : forall p A (r : ref A),
  small (MaxCasURILength p) -> gen_provider_uriGuard p (uri_len r) = negb (uri_ok (limits_of p) r).
Proof. exact (fun p A => @provider_uriGuard_tie p A). Qed.
Print Assumptions C14_code_uri_guard.
