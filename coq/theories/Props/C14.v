(* C14 - Reading batch files is safe against arbitrary CAS content.
   [anchor] is any anchor string over any CAS content as seen after the layers below the provider
   (CAS read, gunzip, JSON decoding, parser verdicts on individual entries). *)
From Coq Require Import List ZArith Bool Arith.
From SV Require Import Parser.Protocol Resolve.Op Batch.Files Batch.Safe Gen.Kernels GenTie.Provider.
Import ListNotations.
Local Open Scope Z_scope.

(* either an error or: as many operations as the anchor string says, pairwise distinct suffixes,
   read through validated files *)
Theorem C14_count_matches_anchor : forall L a ops,
  get_txn_operations L a = Some ops -> Z.of_nat (length ops) = a_count a.
Proof. exact count_matches_anchor. Qed.
Print Assumptions C14_count_matches_anchor.

Theorem C14_suffixes_distinct : forall L a ops,
  get_txn_operations L a = Some ops -> NoDup (map ro_sfx ops).
Proof. exact suffixes_distinct. Qed.
Print Assumptions C14_suffixes_distinct.

Theorem C14_success_structure : forall L a ops,
  get_txn_operations L a = Some ops ->
  a_syntax_ok a = true /\ Z.of_nat (length ops) = a_count a /\
  exists c b, read_file L (l_core_index L) (a_core a) = Some c /\ validate_core_index L c = true /\
              get_batch_files L c = Some b /\ assemble b = Some ops.
Proof. exact get_some. Qed.
Print Assumptions C14_success_structure.

(* every file that was used passed its validation: signed data parse, deltas are validated, the
   counts of index, proof and chunk files agree pairwise *)
Theorem C14_files_validated : forall L c b,
  get_batch_files L c = Some b ->
  bf_core b = c /\ counts_ok b = true /\
  (present (ci_proof c) = true -> exists p, bf_core_proof b = Some p /\ validate_core_proof p = true) /\
  (present (ci_proof c) = false -> bf_core_proof b = None) /\
  (present (ci_prov c) = false -> bf_prov b = None) /\
  (present (ci_prov c) = true -> exists pi pp ch, bf_prov b = Some (pi, pp, ch) /\ validate_prov_index L pi = true /\
        validate_chunk ch = true /\
        (present (pi_proof pi) = true -> exists q, pp = Some q /\ validate_prov_proof q = true) /\
        (present (pi_proof pi) = false -> pp = None)).
Proof. exact get_batch_files_some. Qed.
Print Assumptions C14_files_validated.

(* size limits: before and after decompression *)
Theorem C14_oversize_rejected : forall A L max (r : raw A), f_raw_size r > max -> read_file L max r = None.
Proof. exact (@oversize_raw_rejected). Qed.
Print Assumptions C14_oversize_rejected.

Theorem C14_decompression_bomb_rejected : forall A L max (r : raw A),
  f_size r > max * l_factor L -> read_file L max r = None.
Proof. exact (@oversize_decompressed_rejected). Qed.
Print Assumptions C14_decompression_bomb_rejected.

Theorem C14_accepted_file_within_limits : forall A L max (r : raw A) x,
  read_file L max r = Some x ->
  f_read_ok r = true /\ f_raw_size r <= max /\ f_decomp_ok r = true /\ f_size r <= max * l_factor L /\ f_parsed r = Some x.
Proof. exact (@read_file_some). Qed.
Print Assumptions C14_accepted_file_within_limits.

(* references: over-long URIs, missing and superfluous proof references *)
Theorem C14_long_uri_rejected : forall L a ops c,
  get_txn_operations L a = Some ops -> read_file L (l_core_index L) (a_core a) = Some c ->
  uri_len (ci_proof c) <= l_uri_len L /\ uri_len (ci_prov c) <= l_uri_len L.
Proof. exact long_uri_rejected. Qed.
Print Assumptions C14_long_uri_rejected.

Theorem C14_core_proof_reference_discipline : forall L c,
  validate_core_index L c = true ->
  (present (ci_proof c) = true <-> (0 < length (ci_recovers c) + length (ci_deactivates c))%nat).
Proof. exact proof_reference_discipline. Qed.
Print Assumptions C14_core_proof_reference_discipline.

Theorem C14_provisional_proof_reference_discipline : forall L p,
  validate_prov_index L p = true -> (present (pi_proof p) = true <-> (0 < length (pi_updates p))%nat).
Proof. exact prov_proof_reference_discipline. Qed.
Print Assumptions C14_provisional_proof_reference_discipline.

(* positional access never leaves the proof / chunk lists once the counts agree *)
Theorem C14_zip_in_range : forall ty refs proofs,
  (length refs <= length proofs)%nat ->
  Forall (fun o => ro_ty o = ty /\ exists p, In p proofs /\ ro_signed o = pe_signed p) (zip_ops ty refs proofs)
  /\ map ro_sfx (zip_ops ty refs proofs) = map or_sfx refs.
Proof. exact zip_ops_in_range. Qed.
Print Assumptions C14_zip_in_range.

Theorem C14_deltas_in_range : forall ops ds,
  (length ops <= length ds)%nat ->
  map ro_sfx (with_deltas ops ds) = map ro_sfx ops /\
  Forall (fun o => exists d, In d ds /\ ro_delta o = de_delta d) (with_deltas ops ds).
Proof. exact with_deltas_in_range. Qed.
Print Assumptions C14_deltas_in_range.

(* the guards in the source (re-translated on every run) are the model's *)
Theorem C14_code_size_guards : forall p A (max : Z) (r : raw A),
  small max -> small (max * MaxMemoryDecompressionFactor p) ->
  read_file (limits_of p) max r =
  if negb (f_read_ok r) then None
  else if gen_provider_sizeGuard p (f_raw_size r) max then None
  else if negb (f_decomp_ok r) then None
  else if gen_provider_decompGuard p (f_size r) (gen_provider_decompMax p max) then None
  else f_parsed r.
Proof. exact (fun p A => @provider_size_guards_tie p A). Qed.
Print Assumptions C14_code_size_guards.

Theorem C14_code_uri_guard : forall p A (r : ref A),
  small (MaxCasURILength p) -> gen_provider_uriGuard p (uri_len r) = negb (uri_ok (limits_of p) r).
Proof. exact (fun p A => @provider_uriGuard_tie p A). Qed.
Print Assumptions C14_code_uri_guard.

From SV Require Import Base.Bytes Json.Ast Json.Jcs Json.GoJson Json.GoJsonProofs Resolve.Op Batch.Files Batch.FilesOfBytes Batch.FilesOfBytesProofs.
Local Close Scope Z_scope.

(* on file BYTES: every struct decoder (json.Unmarshal into a file struct) gives the same answer for any amount of parser fuel above go_fuel, and less fuel can only turn an answer into an error: a decoding failure is a rejection (syntax, depth > 10000, wrong kind), never an exhausted counter *)
Theorem C14_bytes_decoders_fuel_independent :
  forall (T : Type) (f : T -> bytes -> gj -> option T) (zero : T) (b : bytes),
         (forall k : nat,
          unmarshal_tree f zero (parse_with_fuel (go_fuel b + k) b) = unmarshal f zero b) /\
         (forall (n : nat) (x : T),
          unmarshal_tree f zero (parse_with_fuel n b) = Some x -> unmarshal f zero b = Some x).
Proof. exact unmarshal_fuel. Qed.
Print Assumptions C14_bytes_decoders_fuel_independent.

(* the same, instantiated for the five file decoders *)
Theorem C14_bytes_file_decoders_fuel :
  forall (b : bytes) (k : nat),
         unmarshal_tree core_index_member core_index_zero (parse_with_fuel (go_fuel b + k) b) =
         decode_core_index b /\
         unmarshal_tree core_proof_member core_proof_zero (parse_with_fuel (go_fuel b + k) b) =
         decode_core_proof b /\
         unmarshal_tree prov_index_member prov_index_zero (parse_with_fuel (go_fuel b + k) b) =
         decode_prov_index b /\
         unmarshal_tree prov_proof_member prov_proof_zero (parse_with_fuel (go_fuel b + k) b) =
         decode_prov_proof b /\
         unmarshal_tree chunk_member chunk_zero (parse_with_fuel (go_fuel b + k) b) = decode_chunk b.
Proof. exact file_decoders_fuel. Qed.
Print Assumptions C14_bytes_file_decoders_fuel.

(* whatever a file decoder accepts is the JSON text of an object or of null (encoding/json: null into a struct is a no-op) *)
Theorem C14_bytes_decoded_is_object_or_null :
  forall b : bytes,
         (decode_core_index b <> None -> json_object_or_null b) /\
         (decode_core_proof b <> None -> json_object_or_null b) /\
         (decode_prov_index b <> None -> json_object_or_null b) /\
         (decode_prov_proof b <> None -> json_object_or_null b) /\
         (decode_chunk b <> None -> json_object_or_null b).
Proof. exact decoded_is_object_or_null. Qed.
Print Assumptions C14_bytes_decoded_is_object_or_null.

(* GetTxnOperations on bytes succeeded: the anchor TEXT is '<count>.<uri>' with count = number of operations returned; every file on the path is in the CAS, within its size limit as served and after decompression, and decodes; URI length limits; proof-file reference discipline (a proof URI is present exactly when there are operations needing it); counts of index, proof and chunk files agree - all stated on the decoded Go structs *)
Theorem C14_bytes_success_structure :
  forall (L : limits) (F : facts) (C : cas) (a : bytes) (ops : list rop),
         get_txn_operations_bytes L F C a = Some ops ->
         exists (uri : bytes) (m : core_index_m),
           parse_anchor a = (true, Z.of_nat (Datatypes.length ops), uri) /\
           file_at L C (l_core_index L) uri decode_core_index m /\
           (blen (cim_proof_uri m) <= l_uri_len L)%Z /\
           (blen (cim_prov_uri m) <= l_uri_len L)%Z /\
           (cim_proof_uri m <> [] <->
            0 < Datatypes.length (core_recovers m) + Datatypes.length (core_deactivates m)) /\
           (cim_proof_uri m <> [] ->
            exists p : core_proof_m,
              file_at L C (l_proof L) (cim_proof_uri m) decode_core_proof p /\
              Datatypes.length (sl_elems (cpm_recover p)) = Datatypes.length (core_recovers m) /\
              Datatypes.length (sl_elems (cpm_deactivate p)) = Datatypes.length (core_deactivates m)) /\
           (cim_prov_uri m <> [] ->
            exists (pi : prov_index_m) (ch : chunk_m) (c0 : chunk_ref_m) 
            (rest : list chunk_ref_m),
              file_at L C (l_prov_index L) (cim_prov_uri m) decode_prov_index pi /\
              sl_elems (pim_chunks pi) = c0 :: rest /\
              chm_uri c0 <> [] /\
              (blen (chm_uri c0) <= l_uri_len L)%Z /\
              file_at L C (l_chunk L) (chm_uri c0) decode_chunk ch /\
              Datatypes.length (sl_elems (ckm_deltas ch)) =
              Datatypes.length (core_creates m) + Datatypes.length (core_recovers m) +
              Datatypes.length (prov_updates pi) /\
              (blen (pim_proof_uri pi) <= l_uri_len L)%Z /\
              (pim_proof_uri pi <> [] <-> 0 < Datatypes.length (prov_updates pi)) /\
              (pim_proof_uri pi <> [] ->
               exists pp : prov_proof_m,
                 file_at L C (l_proof L) (pim_proof_uri pi) decode_prov_proof pp /\
                 Datatypes.length (sl_elems (ppm_update pp)) = Datatypes.length (prov_updates pi))).
Proof. exact bytes_success_structure. Qed.
Print Assumptions C14_bytes_success_structure.

(* distinct suffixes, for get_txn_operations (anchor_view_of_bytes ...) *)
Theorem C14_bytes_suffixes_distinct :
  forall (L : limits) (F : facts) (C : cas) (a : bytes) (ops : list rop),
         get_txn_operations_bytes L F C a = Some ops -> NoDup (map ro_sfx ops).
Proof. exact bytes_suffixes_distinct. Qed.
Print Assumptions C14_bytes_suffixes_distinct.

(* the didSuffix STRINGS of the recover, deactivate and update references in the files of a transaction that reads are pairwise distinct, whatever the interning of strings *)
Theorem C14_bytes_ref_strings_distinct :
  forall (L : limits) (F : facts) (C : cas) (a : bytes) (ops : list rop),
         get_txn_operations_bytes L F C a = Some ops ->
         exists (n : Z) (uri : bytes) (e : cas_entry) (m : core_index_m),
           parse_anchor a = (true, n, uri) /\
           cas_get C uri = Some e /\
           decode_core_index (ce_content e) = Some m /\
           NoDup (map om_did (core_recovers m ++ core_deactivates m)) /\
           (cim_prov_uri m <> [] ->
            exists (e' : cas_entry) (pi : prov_index_m),
              cas_get C (cim_prov_uri m) = Some e' /\
              decode_prov_index (ce_content e') = Some pi /\
              NoDup (map om_did (core_recovers m ++ core_deactivates m ++ prov_updates pi))).
Proof. exact bytes_ref_strings_distinct. Qed.
Print Assumptions C14_bytes_ref_strings_distinct.

(* the anchor string splits at its only '.' into a decimal number without sign or leading zero and the URI; the number is the positive number of operations returned *)
Theorem C14_bytes_count_matches_anchor_text :
  forall (L : limits) (F : facts) (C : cas) (a : bytes) (ops : list rop),
         get_txn_operations_bytes L F C a = Some ops ->
         exists digits uri : bytes,
           split_dot [] a = [digits; uri] /\
           positive_int_text digits = true /\
           digits_val digits 0 = Some (Z.of_nat (Datatypes.length ops)) /\ 0 < Datatypes.length ops.
Proof. exact bytes_count_matches_anchor_text. Qed.
Print Assumptions C14_bytes_count_matches_anchor_text.

(* an anchor string ParseAnchorData rejects is an error *)
Theorem C14_bytes_bad_anchor_fails :
  forall (L : limits) (F : facts) (C : cas) (a : bytes) (n : Z) (uri : bytes),
         parse_anchor a = (false, n, uri) -> get_txn_operations_bytes L F C a = None.
Proof. exact bytes_bad_anchor_fails. Qed.
Print Assumptions C14_bytes_bad_anchor_fails.

(* arbitrary bytes: a file on the path of GetTxnOperations that is missing, unreadable, oversize as served or after decompression, not decompressible, or whose bytes the decoder of its struct rejects, makes the transaction fail *)
Theorem C14_bytes_bad_file_fails :
  forall (L : limits) (F : facts) (C : cas) (a : bytes),
         bad_file L C a -> get_txn_operations_bytes L F C a = None.
Proof. exact bytes_bad_file_fails. Qed.
Print Assumptions C14_bytes_bad_file_fails.

(* in particular bytes that are not the JSON text of an object or of null are rejected by every file decoder *)
Theorem C14_bytes_not_json_object_is_bad :
  forall (L : limits) (max : Z) (e : cas_entry),
         ~ json_object_or_null (ce_content e) ->
         bad_entry L max decode_core_index (Some e) /\
         bad_entry L max decode_core_proof (Some e) /\
         bad_entry L max decode_prov_index (Some e) /\
         bad_entry L max decode_prov_proof (Some e) /\ bad_entry L max decode_chunk (Some e).
Proof. exact not_json_object_is_bad. Qed.
Print Assumptions C14_bytes_not_json_object_is_bad.

(* size and decompression limits of the core index file, on the CAS entry *)
Theorem C14_bytes_oversize_core_index_rejected :
  forall (L : limits) (F : facts) (C : cas) (a : bytes) (n : Z) (uri : bytes) (e : cas_entry),
         parse_anchor a = (true, n, uri) ->
         cas_get C uri = Some e ->
         (ce_raw_size e > l_core_index L)%Z \/ (blen (ce_content e) > l_core_index L * l_factor L)%Z ->
         get_txn_operations_bytes L F C a = None.
Proof. exact bytes_oversize_core_index_rejected. Qed.
Print Assumptions C14_bytes_oversize_core_index_rejected.

(* non-vacuity: a real file set (create, recover, update written by the real handler) reads from its bytes *)
Theorem C14_bytes_nonvacuous_reads :
  option_map (map ro_ty) (get_txn_operations_bytes ex_limits ex_facts ex_cas ex_anchor) =
         Some [Create; Recover; Update].
Proof. exact ex_reads. Qed.
Print Assumptions C14_bytes_nonvacuous_reads.

(* non-vacuity of bad_file: the same CAS with the chunk file replaced by a JSON array *)
Theorem C14_bytes_nonvacuous_bad_file :
  get_txn_operations_bytes ex_limits ex_facts ex_cas_bad_chunk ex_anchor = None.
Proof. exact ex_bad_chunk_fails. Qed.
Print Assumptions C14_bytes_nonvacuous_bad_file.

(* the limit of the previous theorems: a chunk file whose content is the text null is accepted (one deactivate, provisional index without operations); observed on the real provider *)
Theorem C14_bytes_null_chunk_accepted :
  option_map (map ro_ty)
           (get_txn_operations_bytes ex_limits ex_null_facts ex_null_cas ex_null_anchor) =
         Some [Deactivate].
Proof. exact ex_null_chunk_accepted. Qed.
Print Assumptions C14_bytes_null_chunk_accepted.

From SV Require Import Batch.PerType.
Local Close Scope Z_scope.

(* per-type limits at provider level: every file a successful read of a batch went through met the limit of ITS OWN type, compressed and decompressed (core proof, provisional index, provisional proof, first chunk file); the model is a stateless function, and the harness drives one real provider through the same object in two roles (two_roles cases) *)
Theorem C14_every_used_file_within_its_own_limit :
  forall (L : Files.limits) (c : Files.core_index_file) (b : Files.batch_files),
         Files.get_batch_files L c = Some b ->
         (forall p : Files.core_proof_file,
          Files.bf_core_proof b = Some p -> within L (Files.l_proof L) (Files.ci_proof c) p) /\
         (forall (pi : Files.prov_index_file) (pp : option Files.prov_proof_file)
            (ch : Files.chunk_file),
          Files.bf_prov b = Some (pi, pp, ch) ->
          within L (Files.l_prov_index L) (Files.ci_prov c) pi /\
          (forall q : Files.prov_proof_file,
           pp = Some q -> within L (Files.l_proof L) (Files.pi_proof pi) q) /\
          (exists (k : Files.ref Files.chunk_file) (rest : list (Files.ref Files.chunk_file)),
             Files.pi_chunks pi = k :: rest /\ within L (Files.l_chunk L) k ch)).
Proof. exact batch_files_within_limits. Qed.
Print Assumptions C14_every_used_file_within_its_own_limit.

(* the same for the files below the provisional index *)
Theorem C14_provisional_files_within_limits :
  forall (L : Files.limits) (r : Files.ref Files.prov_index_file) 
           (pi : Files.prov_index_file) (pp : option Files.prov_proof_file) 
           (ch : Files.chunk_file),
         Files.get_prov_files L r = Some (pi, pp, ch) ->
         within L (Files.l_prov_index L) r pi /\
         (forall q : Files.prov_proof_file,
          pp = Some q -> within L (Files.l_proof L) (Files.pi_proof pi) q) /\
         (exists (c : Files.ref Files.chunk_file) (rest : list (Files.ref Files.chunk_file)),
            Files.pi_chunks pi = c :: rest /\ within L (Files.l_chunk L) c ch).
Proof. exact prov_files_within_limits. Qed.
Print Assumptions C14_provisional_files_within_limits.

(* an object larger than the chunk-file limit named as first chunk file makes the read of the batch fail, however generous the other limits are (what the two_roles cases exercise on the real provider) *)
Theorem C14_oversize_chunk_rejected :
  forall (L : Files.limits) (r : Files.ref Files.prov_index_file) 
           (pi : Files.prov_index_file) (c : Files.ref Files.chunk_file)
           (rest : list (Files.ref Files.chunk_file)) (f : Files.raw Files.chunk_file),
         Files.read_ref L (Files.l_prov_index L) r = Some pi ->
         Files.pi_chunks pi = c :: rest ->
         Files.target c = Some f ->
         (Files.f_raw_size f > Files.l_chunk L)%Z -> Files.get_prov_files L r = None.
Proof. exact oversize_chunk_rejected. Qed.
Print Assumptions C14_oversize_chunk_rejected.

From SV Require Import Batch.PerType.
Local Close Scope Z_scope.

(* non-vacuity of C14_oversize_chunk_rejected: a concrete state (an object of 511 bytes named as first chunk file, chunk-file limit 510, core-index limit it would meet) satisfies the hypotheses *)
Theorem C14_two_roles_nonvacuous :
  Files.read_ref (ex_L 510) (Files.l_prov_index (ex_L 510)) ex_pi_ref = Some ex_pi /\
         (Files.f_raw_size ex_chunk_raw > Files.l_chunk (ex_L 510))%Z /\
         (Files.f_raw_size ex_chunk_raw <= Files.l_core_index (ex_L 510))%Z.
Proof. exact ex_two_roles_hypotheses. Qed.
Print Assumptions C14_two_roles_nonvacuous.

(* and is refused *)
Theorem C14_two_roles_refused :
  Files.get_prov_files (ex_L 510) ex_pi_ref = None.
Proof. exact ex_two_roles_refused. Qed.
Print Assumptions C14_two_roles_refused.

(* while the same state is read under a limit equal to the size (the limit is inclusive) *)
Theorem C14_two_roles_read_at_the_limit :
  exists (pp : option Files.prov_proof_file) (ch : Files.chunk_file),
           Files.get_prov_files (ex_L 511) ex_pi_ref = Some (ex_pi, pp, ch).
Proof. exact ex_two_roles_read_at_the_limit. Qed.
Print Assumptions C14_two_roles_read_at_the_limit.
