(* C12 - No accepted request re-commits to the key it reveals; chains cannot loop. *)
From Coq Require Import List ZArith Bool.
From SV Require Import Resolve.Op Resolve.Apply Resolve.Process Resolve.Chain Resolve.Inert Resolve.StepTable
  Parser.Recommit Parser.RecommitProofs.
Import ListNotations.
Local Open Scope Z_scope.

(* intake: update/recover next commitment is not the commitment of the revealed key; create and
   recover commitments differ *)
Theorem C12_intake_rejects_recommit : forall t revealed next other,
  intake_accepts t revealed next other = true ->
  (t = Update \/ t = Recover -> ck next <> revealed) /\
  (t = Create \/ t = Recover -> ~ (ck other = ck next /\ ccode other = ccode next)).
Proof. exact intake_accepts_sound. Qed.
Print Assumptions C12_intake_rejects_recommit.

Theorem C12_intake_rule_exact : forall t revealed next other,
  intake_accepts t revealed next other = false ->
  (t = Update /\ ck next = revealed) \/
  (t = Recover /\ (ck next = revealed \/ (ck other = ck next /\ ccode other = ccode next))) \/
  (t = Create /\ ck other = ck next /\ ccode other = ccode next).
Proof. exact intake_rejects_only_recommit. Qed.
Print Assumptions C12_intake_rule_exact.

(* resolution: an applied operation never commits to the commitment it consumes, nor to one
   consumed earlier in the same chain *)
Theorem C12_applied_operation_commits_afresh : forall cands s curr consumed o s',
  first_valid cands s curr consumed = Some (o, s') ->
  In o cands /\ apply o s = Some s' /\ next_c o <> curr /\ (next_c o = 0 \/ ~ In (next_c o) consumed).
Proof. exact first_valid_some. Qed.
Print Assumptions C12_applied_operation_commits_afresh.

(* hence the consumed commitments of a chain are pairwise distinct: no commitment is revisited *)
Theorem C12_chain_never_revisits : forall sel ops s s' cs ap,
  follows sel ops -> chain (length ops) sel ops s [] = Some (s', cs, ap) ->
  NoDup cs /\ cs = map reveal_c ap.
Proof. exact commitments_consumed_once. Qed.
Print Assumptions C12_chain_never_revisits.

(* and resolution terminates on cyclic histories as on any other *)
Theorem C12_terminates : forall fops, resolve_core fops <> inr None.
Proof. exact resolve_core_total. Qed.
Print Assumptions C12_terminates.
