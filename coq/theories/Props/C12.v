(* C12 - No accepted request re-commits to the key it reveals; chains cannot loop. *)
From Coq Require Import List ZArith Bool.
From SV Require Import Resolve.Op Resolve.Apply Resolve.Process Resolve.Chain Resolve.Inert Resolve.StepTable
  Parser.Recommit Parser.RecommitProofs Base.Bytes Hash.Multihash Jws.Compact Parser.Accept Parser.AcceptProofs.
Import ListNotations.
Local Open Scope Z_scope.

(* intake: update/recover next commitment is not the commitment of the revealed key; create and
   recover commitments differ *)
Theorem C12_intake_rejects_recommit : forall t revealed next other,
  intake_accepts t revealed next other = true ->
  (t = Update \/ t = Recover -> ck next <> revealed) /\
  (t = Create \/ t = Recover -> ~ (ck other = ck next /\ ccode other = ccode next)).
Proof. exact intake_accepts_sound. Qed.
Print Assumptions C12_intake_rejects_recommit.

Theorem C12_intake_rule_exact : forall t revealed next other,
  intake_accepts t revealed next other = false ->
  (t = Update /\ ck next = revealed) \/
  (t = Recover /\ (ck next = revealed \/ (ck other = ck next /\ ccode other = ccode next))) \/
  (t = Create /\ ck other = ck next /\ ccode other = ccode next).
Proof. exact intake_rejects_only_recommit. Qed.
Print Assumptions C12_intake_rule_exact.

(* the same rule on the parser model with real hashing: an accepted update's next commitment is not
   the commitment (under the code the next commitment names) of the key it reveals; an accepted
   recover's is not either and differs from its update commitment; a create's two commitments differ *)
Theorem C12_update_does_not_recommit : forall p t v o,
  parse_update p false t v = Some o ->
  exists code c, get_multihash_code (dv_update_commitment (rv_delta v)) = Some code /\
                 get_commitment (jv_canonical (sv_key (rv_signed v))) code = Some c /\
                 c <> dv_update_commitment (rv_delta v).
Proof. exact (fun p t v o H => proj1 (proj2 (proj2 (proj2 (proj2 (update_accept_implies_rules p t v o H)))))). Qed.
Print Assumptions C12_update_does_not_recommit.

Theorem C12_recover_does_not_recommit : forall p t v o,
  parse_recover p false t v = Some o ->
  (exists code c, get_multihash_code (sv_recovery_commitment (rv_signed v)) = Some code /\
                  get_commitment (jv_canonical (sv_key (rv_signed v))) code = Some c /\
                  c <> sv_recovery_commitment (rv_signed v)) /\
  dv_update_commitment (rv_delta v) <> sv_recovery_commitment (rv_signed v).
Proof.
  exact (fun p t v o H =>
    let R := proj2 (proj2 (proj2 (proj2 (proj2 (proj2 (recover_accept_implies_rules p t v o H)))))) in
    conj (proj1 R) (proj1 (proj2 R))).
Qed.
Print Assumptions C12_recover_does_not_recommit.

Theorem C12_create_commitments_differ : forall p v o,
  parse_create p false v = Some o ->
  dv_update_commitment (rv_delta v) <> sf_recovery_commitment (rv_suffix v).
Proof.
  exact (fun p v o H => proj1 (proj2 (proj2 (proj2 (proj2 (proj2 (proj2 (create_accept_implies_rules p v o H)))))))).
Qed.
Print Assumptions C12_create_commitments_differ.

(* resolution: an applied operation never commits to the commitment it consumes, nor to one
   consumed earlier in the same chain *)
Theorem C12_applied_operation_commits_afresh : forall cands s curr consumed o s',
  first_valid cands s curr consumed = Some (o, s') ->
  In o cands /\ apply o s = Some s' /\ next_c o <> curr /\ (next_c o = 0 \/ ~ In (next_c o) consumed).
Proof. exact first_valid_some. Qed.
Print Assumptions C12_applied_operation_commits_afresh.

(* hence the consumed commitments of a chain are pairwise distinct: no commitment is revisited *)
Theorem C12_chain_never_revisits : forall sel ops s s' cs ap,
  follows sel ops -> chain (length ops) sel ops s [] = Some (s', cs, ap) ->
  NoDup cs /\ cs = map reveal_c ap.
Proof. exact commitments_consumed_once. Qed.
Print Assumptions C12_chain_never_revisits.

(* and resolution terminates on cyclic histories as on any other *)
Theorem C12_terminates : forall fops, resolve_core fops <> inr None.
Proof. exact resolve_core_total. Qed.
Print Assumptions C12_terminates.

From SV Require Import Resolve.Op Resolve.Apply Resolve.Process Resolve.Spec Resolve.Extend Resolve.Earliest.
Local Close Scope Z_scope.

(* a commitment is consumed at most once: no two applied recover/deactivate operations reveal the same commitment, no two applied updates reveal the same commitment; no hypothesis on the operation list *)
Theorem C12_applied_reveals_nodup :
  forall (fops : list aop) (c0 : aop) (s : state) (ap : list aop),
         resolve_core fops = inr (Some (c0, s, ap)) ->
         NoDup (map reveal_c (filter is_full ap)) /\ NoDup (map reveal_c (filter (is_ty Update) ap)).
Proof. exact applied_reveals_nodup. Qed.
Print Assumptions C12_applied_reveals_nodup.

(* the same for what Resolve returns from the stores under any options *)
Theorem C12_applied_reveals_nodup_store :
  forall (pub unpub : list aop) (opts : ropts) (c0 : aop) (s : state) (ap : list aop),
         resolve_full pub unpub opts = inr (Some (c0, s, ap)) ->
         NoDup (map reveal_c (filter is_full ap)) /\ NoDup (map reveal_c (filter (is_ty Update) ap)).
Proof. exact applied_reveals_nodup_store. Qed.
Print Assumptions C12_applied_reveals_nodup_store.

(* an applied operation reveals the commitment in force, which was not consumed before in its chain, and commits neither to the commitment it reveals nor to one consumed before *)
Theorem C12_applied_consumes_fresh :
  forall (fops : list aop) (c0 : aop) (s : state) (ap : list aop) 
           (o : aop) (sel : state -> Z) (st : state) (consumed : list Z) 
           (comp : aop -> Prop),
         resolve_core fops = inr (Some (c0, s, ap)) ->
         applied_at c0 ap o sel st consumed comp ->
         reveal_c o = sel st /\
         next_c o <> reveal_c o /\
         ~ In (reveal_c o) consumed /\ (next_c o = 0%Z \/ ~ In (next_c o) consumed).
Proof. exact applied_consumes_fresh. Qed.
Print Assumptions C12_applied_consumes_fresh.
