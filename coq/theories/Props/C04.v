(* C04 - Deactivation is terminal; a recover supersedes everything before it. *)
From Coq Require Import List ZArith Bool Permutation.
From SV Require Import Resolve.Op Resolve.Apply Resolve.Process Resolve.Order Resolve.Chain Resolve.Inert
  Resolve.Prepare Resolve.Terminal Resolve.Intake Parser.Protocol Gen.Kernels GenTie.Order.
Import ListNotations.
Local Open Scope Z_scope.

(* a deactivated DID has an empty document and no commitments *)
Theorem C04_deactivated_shape : forall fops c0 s ap,
  resolve_core fops = inr (Some (c0, s, ap)) -> deact s = true ->
  doc s = Some [] /\ upd s = 0 /\ rec s = 0.
Proof. exact deactivated_shape. Qed.
Print Assumptions C04_deactivated_shape.

(* once the anchored history [pub] deactivates the DID, whatever is anchored later ([later]) or is
   pending ([unpub]) - validly signed or not, of any type - leaves the result unchanged *)
Theorem C04_deactivate_terminal : forall pub later unpub c0 s ap,
  Forall (fun o => published o = true) pub ->
  key_inj (pub ++ later) ->
  (forall a b, In a pub -> In b later -> op_le a b) ->
  no_zero_reveal (pub ++ later ++ unpub) ->
  resolve_full pub [] no_opts = inr (Some (c0, s, ap)) -> deact s = true ->
  resolve_full (pub ++ later) unpub no_opts = inr (Some (c0, s, ap)).
Proof. exact deactivate_terminal. Qed.
Print Assumptions C04_deactivate_terminal.

Theorem C04_deactivate_terminal_processing_order : forall fops ext c0 s ap,
  Forall (fun o => published o = true) fops -> no_zero_reveal (fops ++ ext) ->
  resolve_core fops = inr (Some (c0, s, ap)) -> deact s = true ->
  resolve_core (fops ++ ext) = inr (Some (c0, s, ap)).
Proof. exact deactivate_terminal_core. Qed.
Print Assumptions C04_deactivate_terminal_processing_order.

(* the document handler's default decorator refuses operations for a deactivated DID *)
Theorem C04_decorator_refuses : forall pub unpub r,
  resolve pub unpub no_opts = OOk r -> deact (r_state r) = true -> decorate pub unpub = Refused.
Proof. exact decorate_refuses_deactivated. Qed.
Print Assumptions C04_decorator_refuses.

(* after a recover the document is the recover's own content ... *)
Theorem C04_recover_resets_document : forall o s s',
  ty o = Recover -> apply o s = Some s' ->
  (doc s' = Some [] \/ doc s' = Some [delta o]) /\ rec s' = rec_c o /\ last_t s' = time o /\ last_n s' = num o.
Proof. exact recover_resets_document. Qed.
Print Assumptions C04_recover_resets_document.

(* ... and the only updates applied on top of the last applied recover/deactivate (or the create)
   are unpublished ones or ones anchored strictly after it *)
Theorem C04_recover_supersedes : forall fops c0 s ap,
  resolve_core fops = inr (Some (c0, s, ap)) ->
  exists ap1 ap2 s1,
    ap = ap1 ++ ap2 /\ Forall (fun o => is_full o = true) ap1 /\
    last_t s1 = time (last ap1 c0) /\ last_n s1 = num (last ap1 c0) /\
    (ty (last ap1 c0) = Recover -> doc s1 = Some [] \/ doc s1 = Some [delta (last ap1 c0)]) /\
    Forall (fun u => ty u = Update /\ op_after (time (last ap1 c0)) (num (last ap1 c0)) u = true) ap2.
Proof. exact recover_supersedes. Qed.
Print Assumptions C04_recover_supersedes.

Theorem C04_after_means_strictly_later : forall t n o,
  op_after t n o = true <-> published o = false \/ t < time o \/ (t = time o /\ n < num o).
Proof. exact op_after_spec. Qed.
Print Assumptions C04_after_means_strictly_later.

(* the filter in the source (re-translated on every run) is that relation *)
Theorem C04_code_after_filter : forall p o t n, gen_processor_isOpAfter p o t n = op_after t n o.
Proof. exact processor_isOpAfter_tie. Qed.
Print Assumptions C04_code_after_filter.
