(* C04 - Deactivation is terminal; a recover supersedes everything before it. *)
From Coq Require Import List ZArith Bool Permutation.
From SV Require Import Resolve.Op Resolve.Apply Resolve.Process Resolve.Order Resolve.Chain Resolve.Inert
  Resolve.Prepare Resolve.Terminal Resolve.Intake Parser.Protocol Gen.Kernels GenTie.Order.
Import ListNotations.
Local Open Scope Z_scope.

(* a deactivated DID has an empty document and no commitments *)
Theorem C04_deactivated_shape : forall fops c0 s ap,
  resolve_core fops = inr (Some (c0, s, ap)) -> deact s = true ->
  doc s = Some [] /\ upd s = 0 /\ rec s = 0.
Proof. exact deactivated_shape. Qed.
Print Assumptions C04_deactivated_shape.

(* once the anchored history [pub] deactivates the DID, whatever is anchored later ([later]) or is
   pending ([unpub]) - validly signed or not, of any type - leaves the result unchanged *)
Theorem C04_deactivate_terminal : forall pub later unpub c0 s ap,
  Forall (fun o => published o = true) pub ->
  key_inj (pub ++ later) ->
  (forall a b, In a pub -> In b later -> op_le a b) ->
  no_zero_reveal (pub ++ later ++ unpub) ->
  resolve_full pub [] no_opts = inr (Some (c0, s, ap)) -> deact s = true ->
  resolve_full (pub ++ later) unpub no_opts = inr (Some (c0, s, ap)).
Proof. exact deactivate_terminal. Qed.
Print Assumptions C04_deactivate_terminal.

Theorem C04_deactivate_terminal_processing_order : forall fops ext c0 s ap,
  Forall (fun o => published o = true) fops -> no_zero_reveal (fops ++ ext) ->
  resolve_core fops = inr (Some (c0, s, ap)) -> deact s = true ->
  resolve_core (fops ++ ext) = inr (Some (c0, s, ap)).
Proof. exact deactivate_terminal_core. Qed.
Print Assumptions C04_deactivate_terminal_processing_order.

(* the document handler's default decorator refuses operations for a deactivated DID *)
Theorem C04_decorator_refuses : forall pub unpub r,
  resolve pub unpub no_opts = OOk r -> deact (r_state r) = true -> decorate pub unpub = Refused.
Proof. exact decorate_refuses_deactivated. Qed.
Print Assumptions C04_decorator_refuses.

(* after a recover the document is the recover's own content ... *)
Theorem C04_recover_resets_document : forall o s s',
  ty o = Recover -> apply o s = Some s' ->
  (doc s' = Some [] \/ doc s' = Some [delta o]) /\ rec s' = rec_c o /\ last_t s' = time o /\ last_n s' = num o.
Proof. exact recover_resets_document. Qed.
Print Assumptions C04_recover_resets_document.

(* ... and the only updates applied on top of the last applied recover/deactivate (or the create)
   are unpublished ones or ones anchored strictly after it *)
Theorem C04_recover_supersedes : forall fops c0 s ap,
  resolve_core fops = inr (Some (c0, s, ap)) ->
  exists ap1 ap2 s1,
    ap = ap1 ++ ap2 /\ Forall (fun o => is_full o = true) ap1 /\
    last_t s1 = time (last ap1 c0) /\ last_n s1 = num (last ap1 c0) /\
    (ty (last ap1 c0) = Recover -> doc s1 = Some [] \/ doc s1 = Some [delta (last ap1 c0)]) /\
    Forall (fun u => ty u = Update /\ op_after (time (last ap1 c0)) (num (last ap1 c0)) u = true) ap2.
Proof. exact recover_supersedes. Qed.
Print Assumptions C04_recover_supersedes.

Theorem C04_after_means_strictly_later : forall t n o,
  op_after t n o = true <-> published o = false \/ t < time o \/ (t = time o /\ n < num o).
Proof. exact op_after_spec. Qed.
Print Assumptions C04_after_means_strictly_later.

(* the filter in the source (re-translated on every run) is that relation *)
Theorem C04_code_after_filter : forall p o t n, gen_processor_isOpAfter p o t n = op_after t n o.
Proof. exact processor_isOpAfter_tie. Qed.
Print Assumptions C04_code_after_filter.

From SV Require Import Resolve.Op Resolve.Apply Resolve.Process Resolve.Order Resolve.Terminal Resolve.Extend Resolve.Intake Resolve.IntakeTerminal.
Local Close Scope Z_scope.

(* once the anchored history deactivates the DID the handler's decorator refuses every non-create request, whatever is anchored afterwards and whatever is pending; only hypotheses: the operation store returns anchored operations, the later operations are not anchored before the stored ones *)
Theorem C04_deactivated_refuses_forever :
  forall (pub later unpub : list aop) (c0 : aop) (s : state) (ap : list aop),
         Forall (fun o : aop => published o = true) pub ->
         (forall a b : aop, In a pub -> In b later -> op_le a b) ->
         resolve_full pub [] no_opts = inr (Some (c0, s, ap)) ->
         deact s = true -> decorate (pub ++ later) unpub = Refused.
Proof. exact deactivated_refuses_forever_strong. Qed.
Print Assumptions C04_deactivated_refuses_forever.

(* the same starting from the outcome of Resolve on the anchored history *)
Theorem C04_deactivated_refuses_forever_resolve :
  forall (pub later unpub : list aop) (r : result),
         Forall (fun o : aop => published o = true) pub ->
         (forall a b : aop, In a pub -> In b later -> op_le a b) ->
         resolve pub [] no_opts = OOk r ->
         deact (r_state r) = true -> decorate (pub ++ later) unpub = Refused.
Proof. exact deactivated_refuses_forever_resolve. Qed.
Print Assumptions C04_deactivated_refuses_forever_resolve.

(* the composition with Terminal.deactivate_terminal as it stands (with its key_inj and no_zero_reveal hypotheses, which the strong form shows to be unnecessary) *)
Theorem C04_deactivated_refuses_forever_terminal_hyps :
  forall (pub later unpub : list aop) (c0 : aop) (s : state) (ap : list aop),
         Forall (fun o : aop => published o = true) pub ->
         key_inj (pub ++ later) ->
         (forall a b : aop, In a pub -> In b later -> op_le a b) ->
         no_zero_reveal (pub ++ later ++ unpub) ->
         resolve_full pub [] no_opts = inr (Some (c0, s, ap)) ->
         deact s = true -> decorate (pub ++ later) unpub = Refused.
Proof. exact deactivated_refuses_forever. Qed.
Print Assumptions C04_deactivated_refuses_forever_terminal_hyps.

(* deactivation is terminal for resolve_full without key_inj and no_zero_reveal *)
Theorem C04_deactivate_terminal_strong :
  forall (pub later unpub : list aop) (c0 : aop) (s : state) (ap : list aop),
         Forall (fun o : aop => published o = true) pub ->
         (forall a b : aop, In a pub -> In b later -> op_le a b) ->
         resolve_full pub [] no_opts = inr (Some (c0, s, ap)) ->
         deact s = true -> resolve_full (pub ++ later) unpub no_opts = inr (Some (c0, s, ap)).
Proof. exact deactivate_terminal_strong. Qed.
Print Assumptions C04_deactivate_terminal_strong.

(* core form: operations processed after an anchored history that deactivates the DID change nothing *)
Theorem C04_deactivate_terminal_core_strong :
  forall (fops ext : list aop) (c0 : aop) (s : state) (ap : list aop),
         Forall (fun o : aop => published o = true) fops ->
         resolve_core fops = inr (Some (c0, s, ap)) ->
         deact s = true -> resolve_core (fops ++ ext) = inr (Some (c0, s, ap)).
Proof. exact deactivate_terminal_core_strong. Qed.
Print Assumptions C04_deactivate_terminal_core_strong.

(* the outcome the handler sees stays the deactivated one: same state (empty document, no commitments), same applied operations *)
Theorem C04_deactivated_stays_deactivated :
  forall (pub later unpub : list aop) (c0 : aop) (s : state) (ap : list aop),
         Forall (fun o : aop => published o = true) pub ->
         (forall a b : aop, In a pub -> In b later -> op_le a b) ->
         resolve_full pub [] no_opts = inr (Some (c0, s, ap)) ->
         deact s = true ->
         exists r : result,
           resolve (pub ++ later) unpub no_opts = OOk r /\
           r_state r = s /\ doc s = Some [] /\ upd s = 0%Z /\ rec s = 0%Z /\ r_applied r = map oid ap.
Proof. exact deactivated_stays_deactivated. Qed.
Print Assumptions C04_deactivated_stays_deactivated.

(* contrapositive: if a non-create request is accepted, no earlier stage of the anchored history was deactivated *)
Theorem C04_accepted_means_never_deactivated :
  forall (pub later unpub : list aop) (c0 : aop) (s : state) (ap : list aop),
         Forall (fun o : aop => published o = true) pub ->
         (forall a b : aop, In a pub -> In b later -> op_le a b) ->
         decorate (pub ++ later) unpub = Accepted ->
         resolve_full pub [] no_opts = inr (Some (c0, s, ap)) -> deact s = false.
Proof. exact accepted_means_never_deactivated. Qed.
Print Assumptions C04_accepted_means_never_deactivated.

(* the decorator accepts exactly when the DID resolves to a state that is not deactivated *)
Theorem C04_decorator_accepts_iff :
  forall pub unpub : list aop,
         decorate pub unpub = Accepted <->
         (exists (c0 : aop) (s : state) (ap : list aop),
            resolve_full pub unpub no_opts = inr (Some (c0, s, ap)) /\ deact s = false).
Proof. exact decorate_accepts_iff. Qed.
Print Assumptions C04_decorator_accepts_iff.

(* operations that sort behind or level with the stored ones stay behind them (no key_inj) *)
Theorem C04_sort_stable_for_later_ops :
  forall l ext : list aop,
         (forall a b : aop, In a l -> In b ext -> op_le a b) ->
         sort_ops (l ++ ext) = sort_ops l ++ sort_ops ext.
Proof. exact sort_ops_app_later_stable. Qed.
Print Assumptions C04_sort_stable_for_later_ops.

(* non-vacuity: a deactivated history extended by a recover, an update, a create, an operation with empty reveal and one with duplicate coordinates, plus pending operations *)
Theorem C04_nonvacuous_refused :
  decorate (it_pub ++ it_later) it_unpub = Refused.
Proof. exact it_refused. Qed.
Print Assumptions C04_nonvacuous_refused.

(* the ordering hypothesis is needed: a recover anchored before the deactivate for the same commitment wins *)
Theorem C04_needs_anchored_after :
  decorate (it_pub ++ [it_early_rec]) [] = Accepted.
Proof. exact needs_anchored_after. Qed.
Print Assumptions C04_needs_anchored_after.

(* the store invariant is needed: published creates are preferred to a create without canonical reference *)
Theorem C04_needs_published_store :
  (exists (c0 : aop) (s : state) (ap : list aop),
            resolve_full it_pub_bad [] no_opts = inr (Some (c0, s, ap)) /\ deact s = true) /\
         decorate (it_pub_bad ++ [xop 10 Create 22 0 0 110 28 34]) [] = Accepted.
Proof. exact needs_published_store. Qed.
Print Assumptions C04_needs_published_store.
