(* C06 - Historical resolution equals resolution of the truncated history. *)
From Coq Require Import List ZArith Bool Permutation.
From SV Require Import Parser.Protocol Resolve.Op Resolve.Apply Resolve.Process Resolve.Order Resolve.Prepare Resolve.Version
  Gen.Kernels GenTie.Order.
Import ListNotations.
Local Open Scope Z_scope.

(* at version time T: exactly the operations anchored at or before T *)
Theorem C06_version_time_is_truncation : forall t pub unpub,
  key_inj pub -> key_inj unpub ->
  (exists o, In o (pub ++ unpub) /\ time o <= t) ->
  resolve_full pub unpub (at_time t) = resolve_full (filter_time t pub) (filter_time t unpub) no_opts.
Proof. exact version_time_is_truncation. Qed.
Print Assumptions C06_version_time_is_truncation.

Theorem C06_time_before_first_operation_is_error : forall t pub unpub,
  (forall o, In o (pub ++ unpub) -> t < time o) ->
  resolve_full pub unpub (at_time t) = inl ENoOpsForTime.
Proof. exact version_time_before_first_is_error. Qed.
Print Assumptions C06_time_before_first_operation_is_error.

(* at version id V: the operations up to and including the one whose canonical reference is V;
   an unknown id is an error *)
Theorem C06_version_id_is_prefix : forall v pub unpub,
  v <> 0 -> key_inj pub -> (forall o, In o unpub -> cref o = 0) ->
  match prefix_through v (sort_ops pub) with
  | Some p => resolve_full pub unpub (at_id v) = resolve_full p [] no_opts
  | None => resolve_full pub unpub (at_id v) = inl EBadVersionId
  end.
Proof. exact version_id_is_prefix. Qed.
Print Assumptions C06_version_id_is_prefix.

(* later anchored operations never change what an earlier version resolves to *)
Theorem C06_later_operations_cannot_change_past_time : forall t pub unpub ext_pub ext_unpub,
  key_inj (pub ++ ext_pub) -> key_inj (unpub ++ ext_unpub) ->
  (forall o, In o (ext_pub ++ ext_unpub) -> t < time o) ->
  (exists o, In o (pub ++ unpub) /\ time o <= t) ->
  resolve_full (pub ++ ext_pub) (unpub ++ ext_unpub) (at_time t) = resolve_full pub unpub (at_time t).
Proof. exact later_ops_cannot_change_past_time. Qed.
Print Assumptions C06_later_operations_cannot_change_past_time.

Theorem C06_later_operations_cannot_change_past_id : forall v pub unpub ext unpub' p,
  v <> 0 -> key_inj (pub ++ ext) ->
  (forall o, In o unpub -> cref o = 0) -> (forall o, In o unpub' -> cref o = 0) ->
  (forall a b, In a pub -> In b ext -> op_le a b) ->
  prefix_through v (sort_ops pub) = Some p ->
  resolve_full (pub ++ ext) unpub' (at_id v) = resolve_full pub unpub (at_id v).
Proof. exact later_ops_cannot_change_past_id. Qed.
Print Assumptions C06_later_operations_cannot_change_past_id.

(* the time filter in the source (re-translated on every run) is "anchored at or before T" *)
Theorem C06_code_time_filter : forall p vt o,
  0 <= vt < 2^64 -> gen_processor_versionTimeGuard p vt o = (time o <=? vt).
Proof. exact processor_versionTimeGuard_tie. Qed.
Print Assumptions C06_code_time_filter.
