(* C06 - Historical resolution equals resolution of the truncated history. *)
From Coq Require Import List ZArith Bool Permutation.
From SV Require Import Parser.Protocol Resolve.Op Resolve.Apply Resolve.Process Resolve.Order Resolve.Prepare Resolve.Version
  Gen.Kernels GenTie.Order.
Import ListNotations.
Local Open Scope Z_scope.

(* at version time T: exactly the operations anchored at or before T *)
Theorem C06_version_time_is_truncation : forall t pub unpub,
  key_inj pub -> key_inj unpub ->
  (exists o, In o (pub ++ unpub) /\ time o <= t) ->
  resolve_full pub unpub (at_time t) = resolve_full (filter_time t pub) (filter_time t unpub) no_opts.
Proof. exact version_time_is_truncation. Qed.
Print Assumptions C06_version_time_is_truncation.

Theorem C06_time_before_first_operation_is_error : forall t pub unpub,
  (forall o, In o (pub ++ unpub) -> t < time o) ->
  resolve_full pub unpub (at_time t) = inl ENoOpsForTime.
Proof. exact version_time_before_first_is_error. Qed.
Print Assumptions C06_time_before_first_operation_is_error.

(* at version id V: the operations up to and including the one whose canonical reference is V;
   an unknown id is an error *)
Theorem C06_version_id_is_prefix : forall v pub unpub,
  v <> 0 -> key_inj pub -> (forall o, In o unpub -> cref o = 0) ->
  match prefix_through v (sort_ops pub) with
  | Some p => resolve_full pub unpub (at_id v) = resolve_full p [] no_opts
  | None => resolve_full pub unpub (at_id v) = inl EBadVersionId
  end.
Proof. exact version_id_is_prefix. Qed.
Print Assumptions C06_version_id_is_prefix.

(* later anchored operations never change what an earlier version resolves to *)
Theorem C06_later_operations_cannot_change_past_time : forall t pub unpub ext_pub ext_unpub,
  key_inj (pub ++ ext_pub) -> key_inj (unpub ++ ext_unpub) ->
  (forall o, In o (ext_pub ++ ext_unpub) -> t < time o) ->
  (exists o, In o (pub ++ unpub) /\ time o <= t) ->
  resolve_full (pub ++ ext_pub) (unpub ++ ext_unpub) (at_time t) = resolve_full pub unpub (at_time t).
Proof. exact later_ops_cannot_change_past_time. Qed.
Print Assumptions C06_later_operations_cannot_change_past_time.

Theorem C06_later_operations_cannot_change_past_id : forall v pub unpub ext unpub' p,
  v <> 0 -> key_inj (pub ++ ext) ->
  (forall o, In o unpub -> cref o = 0) -> (forall o, In o unpub' -> cref o = 0) ->
  (forall a b, In a pub -> In b ext -> op_le a b) ->
  prefix_through v (sort_ops pub) = Some p ->
  resolve_full (pub ++ ext) unpub' (at_id v) = resolve_full pub unpub (at_id v).
Proof. exact later_ops_cannot_change_past_id. Qed.
Print Assumptions C06_later_operations_cannot_change_past_id.

(* the time filter in the source (re-translated on every run) is "anchored at or before T", for every int64 value of
   time.Time.Unix() - negative before 1970, where it selects nothing (defect F14 until c49cbc4: the uint64 conversion
   wrapped around and selected everything; the theorem then needed 0 <= vt) *)
Theorem C06_code_time_filter : forall p vt o,
  - 2^63 <= vt < 2^63 -> 0 <= time o -> gen_processor_versionTimeGuard p vt o = (time o <=? vt).
Proof. exact processor_versionTimeGuard_tie. Qed.
Print Assumptions C06_code_time_filter.

From SV Require Import Resolve.Op Resolve.Apply Resolve.Process Resolve.Order Resolve.Prepare Resolve.Version Resolve.Extend Resolve.VersionAdditional.
Local Close Scope Z_scope.

(* for every option, supplying additional operations gives the complete outcome of resolving the merged stores (an additional published operation whose canonical reference is stored is dropped, other published ones join the published operations, unpublished ones the unpublished operations) under the same version filter *)
Theorem C06_additional_is_merge :
  forall (pub unpub : list aop) (opts : ropts),
         resolve pub unpub opts =
         resolve (merged_pub pub (o_additional opts)) (merged_unpub unpub (o_additional opts))
           (strip opts).
Proof. exact resolve_additional. Qed.
Print Assumptions C06_additional_is_merge.

(* the same for the prepared lists *)
Theorem C06_additional_is_merge_prepare :
  forall (pub unpub : list aop) (opts : ropts),
         prepare pub unpub opts =
         prepare (merged_pub pub (o_additional opts)) (merged_unpub unpub (o_additional opts))
           (strip opts).
Proof. exact prepare_additional. Qed.
Print Assumptions C06_additional_is_merge_prepare.

(* and for resolve_full *)
Theorem C06_additional_is_merge_full :
  forall (pub unpub : list aop) (opts : ropts),
         resolve_full pub unpub opts =
         resolve_full (merged_pub pub (o_additional opts)) (merged_unpub unpub (o_additional opts))
           (strip opts).
Proof. exact resolve_full_additional. Qed.
Print Assumptions C06_additional_is_merge_full.

(* part of the anchored history supplied as additional operations (references not stored) resolves exactly as if it were in the operation store, including the returned operation lists *)
Theorem C06_additional_history_as_stored :
  forall pub unpub adds : list aop,
         (forall o : aop,
          In o adds -> cref o <> 0%Z /\ (forall q : aop, In q pub -> cref q <> cref o)) ->
         resolve pub unpub {| o_vid := 0; o_vtime := None; o_additional := adds |} =
         resolve (pub ++ adds) unpub no_opts.
Proof. exact additional_history_as_stored. Qed.
Print Assumptions C06_additional_history_as_stored.

(* re-supplying operations whose references are stored changes nothing *)
Theorem C06_additional_known_ignored :
  forall pub unpub adds : list aop,
         (forall o : aop, In o adds -> cref o <> 0%Z /\ (exists q : aop, In q pub /\ cref q = cref o)) ->
         resolve pub unpub {| o_vid := 0; o_vtime := None; o_additional := adds |} =
         resolve pub unpub no_opts.
Proof. exact additional_known_ignored. Qed.
Print Assumptions C06_additional_known_ignored.

(* additional operations without canonical reference are appended to the unpublished ones *)
Theorem C06_additional_unpublished_as_stored :
  forall pub unpub adds : list aop,
         (forall o : aop, In o adds -> cref o = 0%Z) ->
         resolve pub unpub {| o_vid := 0; o_vtime := None; o_additional := adds |} =
         resolve pub (unpub ++ adds) no_opts.
Proof. exact additional_unpublished_as_stored. Qed.
Print Assumptions C06_additional_unpublished_as_stored.

(* version time with additional operations = plain resolution of the merged history truncated at that time *)
Theorem C06_version_time_additional :
  forall (t : Z) (pub unpub adds : list aop),
         key_inj (merged_pub pub adds) ->
         key_inj (merged_unpub unpub adds) ->
         (exists o : aop, In o (merged_pub pub adds ++ merged_unpub unpub adds) /\ (time o <= t)%Z) ->
         resolve_full pub unpub (at_time_with t adds) =
         resolve_full (filter_time t (merged_pub pub adds)) (filter_time t (merged_unpub unpub adds))
           no_opts.
Proof. exact version_time_additional. Qed.
Print Assumptions C06_version_time_additional.

(* a version time before every merged operation is an error *)
Theorem C06_version_time_additional_before_first :
  forall (t : Z) (pub unpub adds : list aop),
         (forall o : aop, In o (merged_pub pub adds ++ merged_unpub unpub adds) -> (t < time o)%Z) ->
         resolve_full pub unpub (at_time_with t adds) = inl ENoOpsForTime.
Proof. exact version_time_additional_before_first. Qed.
Print Assumptions C06_version_time_additional_before_first.

(* additional operations anchored after the version time do not change the version *)
Theorem C06_later_additional_cannot_change_past_time :
  forall (t : Z) (pub unpub adds : list aop),
         key_inj (merged_pub pub adds) ->
         key_inj (merged_unpub unpub adds) ->
         (forall o : aop, In o adds -> (t < time o)%Z) ->
         (exists o : aop, In o (pub ++ unpub) /\ (time o <= t)%Z) ->
         resolve_full pub unpub (at_time_with t adds) = resolve_full pub unpub (at_time t).
Proof. exact later_additional_cannot_change_past_time. Qed.
Print Assumptions C06_later_additional_cannot_change_past_time.

(* version id with additional operations (a version time given together with it is ignored) = plain resolution of the prefix of the merged sorted anchored history through the operation carrying that reference; unknown reference = error *)
Theorem C06_version_id_additional :
  forall (v : Z) (vt : option Z) (pub unpub adds : list aop),
         v <> 0%Z ->
         key_inj (merged_pub pub adds) ->
         (forall o : aop, In o unpub -> cref o = 0%Z) ->
         match prefix_through v (sort_ops (merged_pub pub adds)) with
         | Some p => resolve_full pub unpub (at_id_with v vt adds) = resolve_full p [] no_opts
         | None => resolve_full pub unpub (at_id_with v vt adds) = inl EBadVersionId
         end.
Proof. exact version_id_additional. Qed.
Print Assumptions C06_version_id_additional.

(* additional operations anchored after everything stored do not change a past version id *)
Theorem C06_later_additional_cannot_change_past_id :
  forall (v : Z) (vt : option Z) (pub unpub adds p : list aop),
         v <> 0%Z ->
         key_inj (merged_pub pub adds) ->
         (forall o : aop, In o unpub -> cref o = 0%Z) ->
         (forall a b : aop, In a pub -> In b adds -> op_le a b) ->
         prefix_through v (sort_ops pub) = Some p ->
         resolve_full pub unpub (at_id_with v vt adds) = resolve_full pub unpub (at_id v).
Proof. exact later_additional_cannot_change_past_id. Qed.
Print Assumptions C06_later_additional_cannot_change_past_id.

(* non-vacuity: store {create, update}, additional {update, recover, stored update, pending update}, version time 12 *)
Theorem C06_nonvacuous_time :
  resolve_full va_store [] (at_time_with 12 (va_pending :: va_adds)) =
         resolve_full (filter_time 12 (merged_pub va_store (va_pending :: va_adds)))
           (filter_time 12 (merged_unpub [] (va_pending :: va_adds))) no_opts.
Proof. exact va_time. Qed.
Print Assumptions C06_nonvacuous_time.

(* its value *)
Theorem C06_nonvacuous_time_value :
  resolve_full va_store [] (at_time_with 12 (va_pending :: va_adds)) =
         inr
           (Some
              (h_create,
               {|
                 doc := Some [103%Z];
                 upd := 22;
                 rec := 31;
                 deact := false;
                 last_t := 12;
                 last_n := 0;
                 created := 10;
                 updated := 12;
                 vid := 3;
                 canon := 3;
                 aorigin := 1
               |}, [h_rec])).
Proof. exact va_time_value. Qed.
Print Assumptions C06_nonvacuous_time_value.

(* version id of the recover supplied as additional operation *)
Theorem C06_nonvacuous_id :
  resolve_full va_store [] (at_id_with 3 (Some 10%Z) va_adds) =
         resolve_full [h_create; h_upd1; h_rec] [] no_opts.
Proof. exact va_id. Qed.
Print Assumptions C06_nonvacuous_id.

(* unknown version id *)
Theorem C06_nonvacuous_id_unknown :
  resolve_full va_store [] (at_id_with 77 None va_adds) = inl EBadVersionId.
Proof. exact va_id_unknown. Qed.
Print Assumptions C06_nonvacuous_id_unknown.

(* additional history as stored *)
Theorem C06_nonvacuous_as_stored :
  resolve [h_create] []
           {| o_vid := 0; o_vtime := None; o_additional := [h_upd2; h_rec; h_upd1] |} =
         resolve ([h_create] ++ [h_upd2; h_rec; h_upd1]) [] no_opts.
Proof. exact va_all_as_stored. Qed.
Print Assumptions C06_nonvacuous_as_stored.
