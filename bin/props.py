"""Per-property configuration of bin/check."""
RESOLVE_TB = [
    "modelled, not verified: per-operation verdicts of the lower layers (parse, reveal, signature, delta hash/validity, patch result) "
    "are facts fixed by construction of each generated request; sort.Slice/SliceStable trusted to sort for a strict weak order",
]
PROPS = {
    "C05": {
        "cmd": "c05", "seed": 5, "gentie": 0,
        "coq_dirs": ["Parser/Window", "Resolve", "Corr/Resolve", "Corr/Window", "Props/C05", "GenTie/Window"],
        "rule": "signed update/recover/deactivate requests (5 key types) x (anchorFrom, anchorUntil) shapes x anchoring times at "
                "boundary-1/boundary/boundary+1 of every candidate bound (from, until, from+each numeric protocol parameter of every "
                "configuration) x 6 protocol configurations; non-trivial = a window is declared (from or until non-zero); "
                "distinct by (type, from, until, anchor, configuration)",
        "trusted_base": RESOLVE_TB,
        "assumptions": ["times below 2^62 (Unix seconds)", "single competitor per commitment, co-monotone coordinates (C02 covers the rest)"],
    },
}
