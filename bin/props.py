"""Per-property configuration of bin/check."""
RESOLVE_TB = [
    "modelled, not verified: per-operation verdicts of the lower layers (parse, reveal, signature, delta hash/validity, patch result) "
    "are facts fixed by construction of each generated request; sort.Slice/SliceStable trusted to sort for a strict weak order",
]
RESOLVE_DIRS = ["Parser/Window", "Resolve", "Corr/Resolve", "Corr/Intake", "Corr/MetaOps", "Base"]


RESOLVE_NOTE = ("Trusted: Coq 8.16.1 kernel + vm_compute; the correspondence harness; go2v for the translated comparators/filters; "
                "modelled not verified: the per-operation verdicts of parser/JWS/hash/composer (facts fixed by construction of each "
                "generated request; those layers have their own properties), sort.Slice/SliceStable (trusted to sort when the comparator "
                "is a strict weak order - the comparator itself is translated and proved), distinct (time, number) per operation.")


def resolve_prop(cmd, seed, rule, level_text, extra_dirs=(), assumptions=()):
    return {"cmd": cmd, "seed": seed, "gentie": 0, "corr": ["Resolve", "Window", "Intake", "MetaOps"], "coq_dirs": RESOLVE_DIRS + list(extra_dirs) + ["Props/" + cmd.upper()],
            "rule": rule, "trusted_base": RESOLVE_TB, "assumptions": list(assumptions),
            "level_text": level_text, "level_note": RESOLVE_NOTE,
            "technique": "Coq proof over an executable model of processor.Resolve/operationapplier.Apply (induction over chains and "
                         "histories) + vm_compute correspondence against the real code on generated histories + relational oracle on the code"}


BATCH_NOTE = ("Trusted: Coq kernel + vm_compute; harness (mutation engine, view builder that decodes CAS content with the library's own "
              "gunzip/JSON decoders and per-entry parser verdicts but none of the provider logic); go2v. Modelled not verified: "
              "encoding/json struct decoding, gzip, the mock CAS, per-entry parser verdicts (suffix data, signed data, delta validity - "
              "C10/C18), absence of Go panics is observed (recover) not proved.")

DOC_NOTE = ("Trusted: Coq kernel + vm_compute; the generator (a separate main package under harness/cmd, written with the model) and "
            "its canonical-JSON comparison. Modelled not verified: encoding/json decoding into generic values, base58/multibase, "
            "time formatting (compared per case).")

NOT_APPLICABLE = []
HOOK_COMMITS = ["339701f", "1083a8c", "950999e"]


PROPS = {
    "C01": resolve_prop("c01", 101,
        "legitimate commitment chains (keys of all 5 types, both hash algorithms) with unauthorised update/recover/deactivate operations "
        "(other key revealed, forged signature, flipped signature bit, re-encoded payload, reveal/signing-key mismatch) and duplicate "
        "creates (same request, other delta, no delta) interleaved at random anchoring positions; each history is resolved with and "
        "without the extras (metamorphic oracle) and compared with the model; non-trivial = at least one extra; distinct by letter "
        "sequence and result",
        "Theorems for all histories: unauthorised operations are rejected by Apply in every state; every applied operation is authorised and revealed the commitment in force; dropping any set of unauthorised non-create operations, or of creates other than the chosen one, anywhere in the published/unpublished history leaves (chosen create, state, applied operations) unchanged. Model tied to the code by differential evaluation and a with/without-extras oracle on the implementation."),
    "C02": resolve_prop("c02", 102,
        "histories with competing operations per commitment, duplicate creates and unpublished operations; (time, number) drawn so that "
        "non-monotone pairs and shared times occur; every permutation of the published store for n<=5 (30 random ones above); all orders "
        "must agree (oracle on the implementation) and equal the model; plus metadata published-operation lists for permuted input; "
        "non-trivial = more than 2 published operations; distinct by letters and store order",
        "Theorems: resolve is invariant under any permutation of both stores (distinct coordinates); the sorted arrangement is unique whatever the algorithm; the source comparators (re-translated each run) equal time-then-number and published-first, and the stable create sort equals the model's partition; first eligible operation in processing order wins and non-applied operations can be removed without effect; metadata lists are order independent. All-permutation oracle on the implementation for n<=5."),
    "C03": resolve_prop("c03", 103,
        "random histories (length 1-30) over the whole operation alphabet: valid, forked, failing/invalid/mismatching delta, in/out of "
        "window (explicit and default), replayed, cyclic, forged, duplicate creates, unpublished tail; every state field and the returned "
        "operation lists compared with the model; non-trivial = more than 2 operations; distinct by letter sequence and result",
        "An independent declarative reference machine (Spec.v: step/run/Reach) is proved equivalent to the code-shaped model (soundness, completeness, determinism), with each partial-failure clause as an equation, commitments consumed at most once and termination (fuel = number of operations never exhausted). The model is compared field by field with processor.Resolve on generated histories over the whole alphabet."),
    "C04": resolve_prop("c04", 104,
        "histories ending in a valid deactivate (60%) or containing recovers, extended by 1-6 later operations (forged, validly signed "
        "with earlier keys, creates, replays); extended vs. base result compared (oracle on the implementation), model comparison, and "
        "DocumentHandler.ProcessOperation with the default decorator for every non-create extension of a deactivated DID; "
        "non-trivial = has an extension",
        "Theorems: a deactivated result has empty document and no commitments; once the anchored history deactivates, any later-anchored or unpublished operations leave the result unchanged (core and store level); the decorator refuses; a recover resets the document and only updates unpublished or anchored strictly after the last full operation are applied on top (source filter re-translated and proved equal). Extension oracle and ProcessOperation on the implementation."),
    "C06": resolve_prop("c06", 106,
        "histories x every cut time (each operation time, +-1) and every canonical reference plus an unknown one, store order shuffled; "
        "Resolve(WithVersionTime/ID) over the full store vs Resolve over the truncated store (oracle on the implementation) and vs the model",
        "Theorems: resolution at version time T equals resolution of the store filtered to time<=T (error before the first operation); at version id V equals resolution of the chronological prefix through V (error when unknown); later-anchored extensions never change either. Source time filter re-translated and proved. Oracle on the implementation: filtered vs truncated store at every cut point."),
    "C12": resolve_prop("c12", 112,
        "histories with a self-loop or a commitment cycle of length 2-5 in the update or recovery chain after 0-3 legitimate updates, "
        "optionally with an escape operation; must terminate (20 s bound) and equal the model; plus Parse(batch=false) over every pairing "
        "of revealed key and next commitments x both hash algorithms for update, recover and create",
        "Theorems: intake acceptance implies next commitment is not that of the revealed key and create/recover commitments differ (and the rule rejects nothing else); an applied operation never commits to the commitment it consumes nor to one consumed earlier in the chain; consumed commitments are pairwise distinct; resolution terminates. Cyclic histories and all key pairings through the real parser."),
    "C07": {
        "seed": 107, "gentie": 0, "corr": ["Json"], "coq_dirs": ["Json", "Corr/Json", "Props/C07"],
        "gens": [{"name": "gen_json", "pkg": "./cmd/gen_json"}],
        "rule": "values: random JSON values over an alphabet of tricky strings (non-ASCII, astral, control, quote / backslash, keys "
                "whose UTF-16 and code-point order differ) and numbers, each in 8 re-serialisations (white space x member order x "
                "escape style incl. upper / lower \\u and surrogate-pair escapes x number spelling); numbers: doubles by bit pattern "
                "(every exponent field sampled, mantissas 0 / 1 / 2^52-1, negative, NaN / Inf, random doubles, integers x 10^k, "
                "neighbours of the 16 layout switch points), each also through long 'E' / 'f' spellings; tokens: non-JSON ParseFloat "
                "syntax, overflow / underflow boundaries, exact halfway strings, binary midpoints +-1ulp; malformed: duplicate names, "
                "unterminated strings / structures, invalid escapes, lone surrogates (32 shapes), control characters, trailing "
                "content, wrong top level, literals; fuzz: mutated documents and byte soup; distinct = distinct case terms",
        "trusted_base": ["modelled, not verified: nothing below the byte level; strconv.ParseFloat / FormatFloat are re-modelled "
                         "(exact rational arithmetic) and compared on every number case",
                         "the model's number printer re-reads its own text; Json/NumShortest.v proves that this guard never fires on a finite "
                         "double (number_to_json_total), so the round trip is a theorem about the printing algorithm itself; the real "
                         "NumberToJSON is tied to the model by the bit-pattern correspondence"],
        "assumptions": ["inputs are well-formed UTF-8 (invalid UTF-8 is copied through by the code; outside the property's precondition)"],
        "level_text": "Theorems: byte-identical output for every serialisation of one value; output is a fixed point, parses to the "
                      "same value, is the unique serialisation of a normal form (member names strictly increasing by UTF-16 code "
                      "units, minimal escaping, ES6 number layout, shortest round-trip digits, no white space); duplicate names, "
                      "unterminated strings, raw control characters, invalid escapes, lone surrogates and trailing content are "
                      "rejected; fuel never causes a rejection. Number TOKENS follow strconv.ParseFloat ('+1', '01', '.5', hex floats, "
                      "underscores are accepted): modelled as the code behaves; not among the property's rejection classes."
                      " Depth and numbers (Json/JcsDepth.v, Num*.v): every string error class is rejected at any nesting depth and position (value or member name) and the accepted texts are prefix-free up to trailing white space (unterminated arrays / objects / strings at every depth); NumberToJSON is total on finite doubles (the parse-back guard never fires: 17 digits always round-trip), chooses a minimal number of digits, the closest candidate (ties to even), and its output is a JSON number token; ParseFloat rounding is specified exactly (round_rat_iff).",
        "level_note": "Trusted: Coq kernel + vm_compute; generator and its oracles.",
        "technique": "Coq proof (parser / printer model of the canonicalizer with exact number arithmetic) + vm_compute correspondence on "
                     "values x re-serialisations, doubles by bit pattern, tokens, malformed classes and fuzz + oracles on the implementation",
    },
    "C08": {
        "cmd": "c08", "seed": 108, "gentie": 0, "corr": ["Hash"], "coq_dirs": ["Hash", "Parser", "Json", "Corr/Hash", "Props/C08"],
        "rule": "hash layer: JWKs of five key types, suffix data and deltas of generated DIDs and random JSON values (nested, "
                "non-ASCII, astral, control characters, extreme numbers) through CalculateModelMultihash (6 codes incl. unsupported), "
                "IsValidModelMultihash / GetMultihashCode / IsComputedUsingMultihashAlgorithms / GetCommitmentFromRevealValue on 26 "
                "mutations of each genuine multihash (character, truncation, padding, alphabet, trailing bits, code, non-minimal "
                "varints, length field, digest length, overflow), GetCommitment / GetRevealValue / GetUniqueSuffix, base64url on "
                "random texts; 15 re-serialisation styles per value (whitespace x escapes x member order x number spelling); long "
                "form: genuine DIDs and ~60 alterations each (segment characters, truncation, padding, trailing bits, every "
                "re-serialisation, reordered / duplicate / extra members, other delta / commitment / patch / suffix data / delta "
                "hash, nulls, re-derived suffix, suffix edits, extra segments, repeated namespace) under 8 configurations through "
                "the real DocumentHandler.ResolveDocument over an empty store; distinct by full input",
        "trusted_base": ["modelled, not verified (facts of lower layers): canonical bytes of decoded structs (JCS, C07), "
                         "encoding/json decoding into CreateRequest, create applies + document validator + transformer verdict "
                         "(one boolean fact, C17-C19)", "SHA-256/512, base64url, varint, multihash are computed in Coq, not facts"],
        "assumptions": [],
        "level_text": "Theorems: a model validates against a multihash iff the multihash is the hash of its canonical form under the "
                      "algorithm it names; equal multihash implies equal canonical form or a SHA-2 collision; commitment = hash of the "
                      "decoded reveal value; base64url and multihash framing are injective (round trips); a long-form DID resolves "
                      "only if its segment is the canonical encoding of its initial state, its suffix is the multihash of the embedded "
                      "suffix data and the embedded delta hashes to the delta hash; every non-canonical encoding is rejected. The "
                      "dependence on the JSON value only is the canonicalizer's value-only theorem (C07) composed with the hash "
                      "model. Tied to the code by concrete differential runs (the model recomputes every hash inside Coq) and by "
                      "independent standard-library oracles on the implementation."
                      " Long-form binding (Parser/LongFormBinding.v): for one DID suffix at most one initial state resolves, up to an exhibited SHA-2 collision on suffix data or delta.",
        "level_note": "Trusted: Coq kernel + vm_compute; harness view builder. Collision resistance of SHA-2 is stated as the conclusion "
                      "(a collision is exhibited), never assumed.",
        "technique": "Coq proof (hash / multihash / long-form model with concrete SHA-2 in Coq) + vm_compute correspondence on mutated "
                     "multihashes and altered long-form DIDs + re-serialisation and self-certification oracles on the implementation",
    },
    "C09": {
        "cmd": "c09", "seed": 109, "gentie": 0, "corr": ["Jws"], "coq_dirs": ["Jws", "Hash", "Json", "Parser", "Corr/Jws", "Props/C09"],
        "rule": "real keys of the five types; JWS built independently of the library (own base64url/compact code, raw r||s) and by the "
                "library's signing utilities; verified under the matching key, every other key and malformed variants of the JWK "
                "(unknown/empty/lower-case kty, unknown/other curve, short/long/missing coordinates, off-curve, swapped); every n-th "
                "byte of decoded header, payload and signature altered, truncated/extended/zero/empty/doubled signatures, the ECDSA twin "
                "(r, n-s); header spellings (unsorted, whitespace, b64 true/false/non-bool, escaped, missing alg, array, null, duplicate "
                "members); malformed compact strings incl. Go's lenient base64 cases; run under recover; verdict compared with the "
                "model, whose crypto fact is evaluated with Go's crypto packages directly on the model's signing input; non-trivial = "
                "not the plain genuine case; oracles on the implementation: genuine accepted, altered/foreign rejected, no panic",
        "trusted_base": ["modelled, not verified (oracles): ECDSA/EdDSA verification and curve arithmetic, go-jose JWK decoding; the protected header is "
                         "decoded inside Coq (Jws/FromBytes.v over the encoding/json + go-jose decoder model Json/GoJson.v) and must equal the header facts "
                         "go-jose produced, for every case"],
        "assumptions": ["the signature primitives are correct and unforgeable (never a premise of a theorem: statements reduce acceptance "
                        "to the primitive's verdict on the exact signing input)"],
        "level_text": "Theorems: acceptance implies the primitive verified the signature over exactly b64(re-serialised header).b64(payload) "
                      "under a JWK that decoded, with fixed signature size per curve; the signing input determines header and payload "
                      "(injectivity via base64 round trip, '.' not in the alphabet); compact build/parse round trip; sign-then-verify; "
                      "rejection of every malformed class. Partial: the primitives themselves are exercised (tamper enumeration, foreign "
                      "keys, twin), not proved."
                      " Primitive layer (Jws/Primitive.v): with the signature primitive as a function V, acceptance means V accepted exactly the signing input computed from the decoded header and payload; two strings that verify under one key and differ in header or payload exhibit two different messages accepted by V (tamper evidence); acceptance under another key means V accepted that very message under it."
                      " From bytes (Jws/FromBytes.v): the verdict as a function of the compact string alone, header facts computed in Coq; soundness and forged-rejection restated for it.",
        "level_note": "Trusted: Coq kernel + vm_compute; harness incl. its own JWS builder and direct use of Go crypto for the crypto fact; "
                      "hook pkg/verifhooks (build tag verif).",
        "technique": "Coq proof over a model of compact JWS parsing / signing input / verification dispatch + vm_compute correspondence "
                     "with tamper enumeration on real keys",
    },
    "C10": {
        "cmd": "c10", "seed": 110, "gentie": 0, "corr": ["Parser", "ViewOfBytes", "ViewValidated"], "coq_dirs": ["Parser", "Hash", "Jws", "Json", "Doc", "Corr/Parser", "Corr/ViewOfBytes", "Corr/ViewValidated", "GenTie/Parser", "Props/C10"],
        "gens": [{"name": "gen_view", "pkg": "./cmd/gen_view"}, {"name": "gen_vlink", "pkg": "./cmd/gen_vlink"}],
        "rule": "valid create/update/recover/deactivate requests (keys of all types, both hash algorithms) and signed-data level "
                "variants (nonce sizes, key re-use, equal commitments, other revealed key, other signed suffix, hash mismatch, no delta, "
                "disabled action) mutated field by field (delete/null/wrong type/empty/over-long/garbage/unsupported code), under 16 "
                "configurations in which every limit is placed exactly at and one below the request's actual value and every algorithm "
                "list is narrowed alone; entry points Parse (intake, with an accepting and a refusing time validator), "
                "ParseOperation(batch), GetRevealValue, GetCommitment; plus arbitrary bytes; all under recover; non-trivial = not an "
                "arbitrary-bytes case that is simply rejected; distinct by (label, configuration, entry point)",
        "trusted_base": ["modelled, not verified (facts of lower layers): encoding/json struct decoding, go-jose header decoding, JCS "
                         "canonical bytes of decoded structs (C07), per-patch validator verdicts (C18); hashing/base64/multihash are "
                         "computed in Coq, not facts"],
        "assumptions": ["protocol parameters below 2^62"],
        "level_text": "Theorems per operation type: intake acceptance implies request size <= MaxOperationSize, canonical delta <= "
                      "MaxDeltaSize, every hash field within MaxOperationHashLength and a well-formed multihash of an allowed algorithm, "
                      "allowed signature algorithm and key curve, nonce of NonceSize bytes, enabled and valid patches, reveal value = hash "
                      "of the signing key, no re-commit; limits inclusive and exact; the four limit guards are re-translated from source "
                      "and each reads exactly its own parameter. Model tied to the real parser by differential runs over mutated "
                      "requests and boundary configurations. The view itself is computed INSIDE Coq from the raw request bytes "
                      "(Json/GoJson.v: model of encoding/json and of go-jose's decoder, struct decoding incl. case folding, duplicate "
                      "members, null, type errors, int64 fields, marshal + JCS of the decoded structs; Parser/ViewOfBytes.v) and the "
                      "rules theorems are restated on request bytes; the decoder model is tied to the real decoders by gen_view "
                      "(every generated request, mutated at value and at text level, plus arbitrary bytes: Coq view = Go view and "
                      "Coq verdict = real parser verdict in intake and batch mode). Remaining facts: per-patch validator verdicts, the "
                      "anchor-origin plug-in, the time validator. Partial: absence of panics is observed under recover."
                      " Exactness (Parser/Exact.v): iff-characterisations of every limit (inclusive), independence of each limit from the others in the model, monotonicity and exact thresholds.",
        "level_note": "Trusted: Coq kernel + vm_compute (SHA-256/512, base64url, varint evaluated inside Coq); harness view builder; go2v.",
        "technique": "Coq proof (acceptance implies rules) over a parser model with concrete hashing + source-regenerated limit guards + "
                     "vm_compute correspondence on mutated requests x boundary configurations",
    },
    "C11": {
        "cmd": "c11", "seed": 111, "gentie": 0, "corr": ["Builder"], "coq_dirs": ["Parser", "Hash", "Jws", "Resolve", "Corr/Builder", "Props/C11"],
        "rule": "builders: for keys of all five types and both hash codes, the four builders called around a valid centre one axis at a "
                "time (13 signer / header / nonce variants incl. nil signer, nil headers, missing / empty / non-string / foreign alg, "
                "extra header, failing signer; 8 patch shapes incl. opaque documents, both, none, disabled action; 4 windows; anchor "
                "origins of every JSON kind; 11 input defects incl. empty suffix / reveal, nil key, key re-use, mixed hash codes, "
                "equal commitments, foreign reveal, unsupported and unknown code) plus random combinations, each parsed by the real "
                "parser under 5 protocol configurations (all enabled; single signature algorithm; single curve; SHA-256 only; SHA-512 "
                "first); effects: 21 scripts (U, UU, R, UR, RU, URUU, D, early / late / default windows, RR ...) x 5 key types x 2 "
                "hash codes built by the client library, anchored and resolved by the real processor; distinct by full input",
        "trusted_base": ["modelled, not verified (facts of lower layers): canonical bytes of the structs the builders marshal (C07), "
                         "header JSON and signature bytes of the caller's signer, signature primitive verdict (C09), per-patch "
                         "validation (C18), PatchesFromDocument verdict (C17)", "delta hash, suffix, commitments, base64 / JWS framing are computed in Coq"],
        "assumptions": ["protocol parameters below 2^62"],
        "level_text": "Completeness theorems, one per operation type: whatever a builder emits from valid inputs is accepted by the "
                      "parser model (intake and batch) of any protocol that enables the hash code, signature algorithm and curve used, "
                      "and parses back to the supplied suffix, reveal value, delta, commitments, key and window; the delta matches the "
                      "signed hash, the reveal value links to the previous commitment, the framed JWS verifies. Effect: extension "
                      "theorems on the resolution model (a well-formed update / recover / deactivate appended to a resolved history "
                      "yields exactly apply's state). Builder model tied to the real builders, parser model to the real parser and "
                      "resolution model to the real processor by differential runs over all algorithms."
                      " Bridge (Resolve/FromView.v): the per-operation facts of the resolution model are COMPUTED from the request view with the parser, hash and JWS models; a built request has all facts true (good_update / good_recover / good_deactivate), and one end-to-end theorem per type states: built from valid inputs, anchored in its window after everything else on a DID whose commitment in force is that of the signing key => Resolve returns exactly the intended state.",
        "level_note": "Trusted: Coq kernel + vm_compute; harness view builder. The signature primitive is an oracle (crypto_ok).",
        "technique": "Coq proof (builder-to-parser completeness, extension of resolution) + vm_compute correspondence of a builder model "
                     "against the real client library x parser x processor for all key types and hash codes",
    },
    "C13": {
        "cmd": "c13", "seed": 113, "gentie": 0, "corr": ["Batch"], "coq_dirs": ["Batch", "Corr/Batch", "Props/C13"],
        "rule": "batches of 1-12 client-built operations over 6 DIDs (all four types, anchor origins of every JSON kind, repeated "
                "suffixes frequent, expired operations via the time validator; shapes: single, deactivate-only, update-only, maximum "
                "size, random mix) through the real OperationHandler over a CAS and back through the real OperationProvider; oracle on "
                "the implementation: read-back = first non-expired per suffix, ordered by type, JSON-equal requests, anchor origin, "
                "count, accounting; model: prepare + get_txn_operations on the same queue content; non-trivial = more than one operation",
        "trusted_base": ["modelled, not verified: JSON (de)serialisation of the files, gzip, CAS"],
        "assumptions": ["queued operations passed intake (valid multihash lengths)", "files within the protocol's size limits"],
        "level_text": "Round-trip theorem for every queue content: get_txn_operations (prepare ops) returns exactly the included operations "
                      "(first non-expired per suffix) with all fields, ordered create/recover/update/deactivate; anchor count; accounting "
                      "permutation. Proved by list induction over positional zips; model tied to handler and provider by differential runs "
                      "of the real round trip.",
        "level_note": BATCH_NOTE,
        "technique": "Coq proof (round trip of positional file layout) + vm_compute correspondence on generated batches through the real "
                     "handler and provider + read-back oracle on the implementation",
    },
    "C14": {
        "cmd": "c14", "seed": 114, "gentie": 0, "corr": ["Batch", "FilesOfBytes"],
        "gens": [{"name": "gen_files", "pkg": "./cmd/gen_files"}], "coq_dirs": ["Batch", "Corr/Batch", "GenTie/Provider", "Props/C14"],
        "rule": "valid file sets written by the real handler, then 0-3 count-consistent mutations out of ~140 (drop/duplicate/null/swap/"
                "empty entries of every list, missing/dangling/superfluous/ill-typed references, operations null/ill-typed, transport: "
                "uncompressed, padded beyond raw or decompressed limit and exactly at it, flipped bytes, read failure, over-long and "
                "maximal URIs, retargeted/empty/over-long/maximal suffixes and reveal values, bad suffix data, anchor string variants); "
                "provider run under recover; outcome (error or operation list) compared with the model over the decoded view; "
                "non-trivial = at least one mutation; distinct by mutation set and outcome; error-class histogram in evidence",
        "trusted_base": ["modelled, not verified: JSON decoding, gzip, per-entry validators; panics observed not proved"],
        "assumptions": ["alternate CAS sources not exercised"],
        "level_text": "Theorems over every anchor string / CAS content (as decoded): success implies count = anchor count, pairwise distinct "
                      "suffixes, all files validated and pairwise count-consistent, sizes within limit and limit x factor, URI lengths "
                      "within limit, proof references present exactly when needed, and every positional access in range; the size, URI "
                      "and hash-length guards are re-translated from source and proved equal to the model. Partial: absence of Go panics "
                      "is runtime behaviour, exercised by mutation runs under recover.",
        "level_note": BATCH_NOTE,
        "technique": "Coq proof (guards imply safe indexing and well-formed result) + source-regenerated guards + vm_compute "
                     "correspondence on mutated file sets",
    },
    "C15": {
        "cmd": "c15", "seed": 115, "gentie": 0, "corr": ["Txn", "Batch"], "coq_dirs": ["Batch", "Corr/Txn", "Props/C15"],
        "rule": "sequences of 1-5 transactions (valid, unreadable, malformed anchor, count mismatch, duplicate suffixes in the provider's "
                "answer, unknown namespace, no protocol version, store Put failure, unpublished-store delete failure) processed both by "
                "direct TxnProcessor.Process calls and through a started Observer; store content and results compared with the model; "
                "oracle on the implementation: every stored operation carries its transaction's references, one per suffix per "
                "transaction; intake: sequences of ProcessOperation with refused requests, unpublished Put failures and writer Add "
                "failures, queue and unpublished store compared",
        "trusted_base": ["modelled, not verified: the operation store's Put is atomic (one call); provider outcome per transaction is a fact"],
        "assumptions": ["unpublished store Delete removes the operation it is given"],
        "level_text": "Theorems: process_txn leaves the store unchanged or appends exactly the stamped first-per-suffix operations (stamp = "
                      "time, number, protocol version, canonical and equivalent references); failing transactions contribute nothing and "
                      "the observer continues; the store only grows; a refused/failed intake leaves queue and unpublished store "
                      "unchanged. Model tied to TxnProcessor, Observer and DocumentHandler by differential runs with fault injection."
                      " List level (Batch/TxnIsolation.v): the observer = closed form (store ++ contributions); a failing transaction can be removed anywhere without changing the result; every stored operation stems from a non-failing transaction and carries its coordinates; at most one stored operation per (suffix, transaction) for distinct coordinates.",
        "level_note": BATCH_NOTE,
        "technique": "Coq proof (store effect, isolation, intake no-trace) + vm_compute correspondence with fault injection + stamp oracle",
    },
    "C17": {
        "seed": 117, "gentie": 0, "corr": ["Composer"], "coq_dirs": ["Doc", "Json", "Corr/Composer", "Props/C17"],
        "gens": [{"name": "gen_composer", "pkg": "./cmd/gen_composer"}],
        "rule": "documents reachable by patch sequences, generated directly, empty and nil; patch lists of length 0-5 over all eight "
                "actions (ietf-json-patch restricted to top-level add), repeated ids within a patch, present/absent ids, empty lists, "
                "lists whose k-th patch fails, ill-typed values and sections; every call under recover, input snapshotted before and "
                "compared after (purity), called twice (determinism); PatchesFromDocument and its round trip through the composer; "
                "non-trivial / distinct = distinct case terms",
        "trusted_base": ["modelled, not verified: deepCopy = JSON round trip (identity on the AST); Go heap purity is observed per case, "
                         "not proved"],
        "assumptions": ["the ietf-json-patch engine is a parameter of the composer model (C18 models it)"],
        "level_text": "Theorems over all documents and patches: add-existing replaces in place, add-new appends, remove deletes and ignores "
                      "absent ids, replace resets; refinement to an independent ordered-map specification; uniqueness of ids preserved; "
                      "atomicity (failure iff some patch fails on its predecessors' result; composition law); PatchesFromDocument round "
                      "trip. Purity/determinism of the Go heap are checked per generated call, not proved (partial)."
                      " The round trip is also proved for the MODELLED json-patch engine (Doc/RoundTripEngine.v: no assumption on the engine; nested objects with distinct member names, as Go maps have).",
        "level_note": DOC_NOTE,
        "technique": "Coq proof (ordered-map refinement, atomicity, round trip) + vm_compute correspondence on generated documents and "
                     "patch lists + purity/determinism oracle on every call",
    },
    "C18": {
        "seed": 118, "gentie": 0, "corr": ["Validator"], "coq_dirs": ["Doc", "Json", "Corr/Validator", "GenTie/Validator", "Props/C18"],
        "gens": [{"name": "gen_validator", "pkg": "./cmd/gen_validator"},
                 {"name": "gen_jsonpatch", "pkg": "./cmd/gen_jsonpatch", "args": ["-coqdir", "{COQ}"]}],
        "rule": "validators: patch values generated around every rule (each violation singly and in combination: action, ids "
                "(length 0/1/50/51, characters), duplicate ids, key types x purposes, key material members, service types, endpoint "
                "arrays with a bad element at every position, non-object elements at every position, ill-typed / null / missing "
                "replace sections, JSON-patch path / from variants: null, non-string, empty, no leading slash, protected, near-miss "
                "prefix) through patchvalidator.Validate and operationparser.ValidateDelta; engine: operation lists over all six "
                "RFC 6902 operations with present / absent / ill-typed members over small documents, every case run in a crash-"
                "isolated child process (memory and stack limits, timeout) at library and composer level; distinct = distinct case terms",
        "trusted_base": ["modelled, not verified: net/url URI verdicts (Section variables, recorded per string), encoding/json decoding "
                         "of patches; the json-patch v4.1.0 engine is modelled as it is, including its aliasing"],
        "assumptions": ["documents are JSON objects with pairwise distinct member names (what the composer produces)"],
        "level_text": "Theorems: an accepted delta obeys every structural rule of the property, over the raw arrays it carries (no "
                      "entry escapes); an accepted JSON patch can neither address, move, copy over nor remove the public-key or "
                      "service sections even through aliasing (proved over the engine's pointer-graph model); validation never "
                      "panics; engine panics are errors of ApplyPatches for every input. The no-crash clause is REFUTED for the "
                      "unrepaired third-party engine: two classes of accepted patches kill the process (known findings F11-cycle, "
                      "F11-oom, witnesses proved in the model and reproduced in child processes); every other accepted delta in the "
                      "explored space returns a document or an error. Partial: absence of process death outside the two characterised "
                      "classes is established by the model's agreement with the real engine on the generated cases, not by a theorem."
                      " Composer safety (Doc/ComposerSafety.v): on object documents ApplyPatches never panics for set-actions whatever the engine, and for the modelled engine an accepted delta applied to a document reachable by accepted deltas yields a document (reachable again), an error, or death of the process inside the engine, never a composer panic; process death is characterised (run_fatal_iff).",
        "level_note": "Trusted: Coq kernel + vm_compute; generators; child-process isolation (ulimit -v, 64 MB stack, 60 s).",
        "technique": "Coq proof (validator rules, protected-section invariance over a pointer-graph model of the JSON-patch engine) + "
                     "vm_compute correspondence of validator and engine models against the real code in crash-isolated child processes",
    },
    "C19": {
        "cmd": "c19", "seed": 119, "gentie": 0, "corr": ["Transformer"], "coq_dirs": ["Doc", "Json", "Corr/Transformer", "Props/C19"],
        "gens": [{"name": "gen_transformer", "pkg": "./cmd/gen_transformer"}],
        "rule": "internal documents with 0-6 keys over every key type x purpose sets x JWK/base58/multibase material (incl. messy "
                "ill-typed ones), services with extra members and endpoint shapes, alsoKnownAs; resolution models with and without "
                "commitments, deactivation, anchor origins of every JSON kind, times, canonical/equivalent references, operation lists "
                "up to 12; all option combinations (base, method contexts, key contexts, include flags); TransformDocument, "
                "CreateDocumentMetadata, generic transformer, transformation-info constructors, GetHint, RFC 3339 times at month/leap "
                "boundaries, base64url; canonical JSON compared; distinct = distinct case terms",
        "trusted_base": ["modelled, not verified (oracles, per-case facts): base58 / multibase encodings; time.Format compared per case"],
        "assumptions": ["operation lists with distinct (time, number) (sort.Slice is unstable on ties above 12 elements)"],
        "level_text": "Theorems for all documents, models and options: each key exactly once as verification method with qualified id, "
                      "controller and preserved / re-encoded material; relationship sections exactly the keys with that purpose; services "
                      "projected; alsoKnownAs carried over; no internal publicKey; contexts cover key types; metadata fields equal the "
                      "model's under the code's exact conditions; RFC 3339 layout and Gregorian calendar arithmetic.",
        "level_note": DOC_NOTE,
        "technique": "Coq proof (structural projection theorems, calendar arithmetic) + vm_compute correspondence on generated documents, "
                     "models and option combinations",
    },
    "C20": {
        "cmd": "c20", "seed": 120, "gentie": 0, "corr": ["Pipeline"], "coq_dirs": ["Pipeline", "Resolve", "Writer", "Batch", "Corr/Pipeline", "Props/C20"],
        "rule": "full-pipeline runs over the real components (DocumentHandler.ProcessOperation -> batch.Writer driven by VerifStep "
                "with the real cutter -> OperationHandler over a map CAS -> ledger stub -> real Observer -> TxnProcessor -> stores -> "
                "processor / ResolveDocument): 5 directed scenarios x 3 configurations plus random workloads of several DIDs whose "
                "whole lives are built by the client library (all key types), interleaved submissions, several operations of one DID "
                "inside one batch window, operations on unknown / deactivated DIDs, invalid requests, forged signatures, windows, "
                "flush points anywhere (empty queue, partial batches, forced), MaxOperationCount 2-4, one and two protocol versions "
                "under both ledger policies for the transaction's protocol version, with and without unpublished-operation store "
                "(none / create / create+update / all types); after every flush: store content per DID, ResolveDocument of every DID, "
                "create response vs long form vs short form; distinct by event list",
        "trusted_base": ["modelled, not verified: per-request facts (parser / signature / delta verdicts: C09-C11, C17, C18), file "
                         "formats and CAS (C13, C14), the ledger (a stub assigning coordinates)"],
        "assumptions": ["request ids are distinct", "non-create requests reveal a non-empty commitment (what the parser accepts)"],
        "level_text": "Theorems over all event sequences (induction over the event list) of a composed pipeline model: conservation "
                      "(every accepted request is in exactly one of queue / ledger / store / expired, refused requests leave no "
                      "trace), per-DID stored operations strictly ordered by anchoring coordinates with at most one per transaction, "
                      "resolution of every DID = the reference state machine run on its stored operations in anchoring order "
                      "(refinement instantiated on the pipeline), equal to the left fold of apply for well-formed chains, the three "
                      "views of a create agree up to publication metadata, batches carry one accepting version and are applied "
                      "under the version the ledger stamps. Model tied to the real pipeline by differential runs and independent "
                      "reference oracles on the implementation. Observations (not property violations): the writer re-queues "
                      "deferred operations at the tail, so the anchoring order of one DID's operations may differ from the "
                      "submission order (fifo_refuted); the batch limit is that of the version in force when cutting."
                      " Eventual storage (Pipeline/Eventual.v): from any reachable state max(1, queue length) rounds of forced flush + observe empty queue and ledger, so every accepted request is stored or discarded as expired, exactly once (needs MaxOperationCount > 0; bound tight).",
        "level_note": "Trusted: Coq kernel + vm_compute; harness (ledger stub, stores, projections); VerifStep hook.",
        "technique": "Coq proof (composition of writer, batch, transaction-processor and resolution models; induction over all event "
                     "sequences; refinement to the reference state machine) + vm_compute correspondence with full-pipeline runs of the "
                     "real components + reference oracles on the implementation",
    },
    "C16": {
        "cmd": "c16", "seed": 116, "gentie": 0, "corr": ["Writer"],
        "gens": [{"name": "gen_writer_race", "pkg": "./cmd/gen_writer_race", "race": True}],
        "coq_dirs": ["Writer", "Corr/Writer", "GenTie/Cutter", "Props/C16"],
        "rule": "schedules of 1-7 ticks (monitor / batch timeout) driven through Writer.VerifStep with client Adds between ticks and "
                "immediately before the k-th queue call of a tick (wrapper around the real MemQueue), CAS write failures at the k-th "
                "write and anchor-write failures, real OperationHandler (expired operations via the time validator, repeated suffixes "
                "are frequent), two protocol versions incl. version 0, MaxOperationCount 2-4; the recorded event trace is replayed on "
                "the model and final queue + anchor log compared; oracles on the implementation: no version mixing, size <= max, "
                "anchor count = references; non-trivial = at least one batch anchored; distinct by schedule",
        "trusted_base": ["modelled, not verified: handler contract at the level of (included, deferred, expired) - the handler itself is "
                         "C13; goroutines, tickers and data races are outside the model (labelled partial)"],
        "assumptions": ["only the writer thread removes from the queue", "operations accepted by a running (not stopped) writer"],
        "level_text": "Invariants proved over every event list of a step function whose events are the individual queue/handler/anchor calls "
                      "of the writer thread and client Adds (all interleavings) with failure flags (all fault placements): conservation "
                      "(permutation of accepted = queue + in flight + anchored + expired), exactly-once, batch shape (size, single "
                      "version, one per suffix, short batch only when forced or at a version boundary), FIFO head/tail lemmas; the "
                      "cutter arithmetic is re-translated from source and proved equal. Progress (Writer/Liveness.v): the writer thread's "
                      "continuation is determined; every tick completes; a failure-free forced tick strictly shrinks the queue; from any "
                      "reachable state, finishing the tick and then at most (operations accepted) failure-free batch timeouts leave every "
                      "accepted operation in exactly one anchored batch or discarded as expired; failing ticks are transparent and only "
                      "delay; monitor ticks alone / a permanently failing anchor writer never drain (hypotheses needed). The real Writer "
                      "is stepped through a verif hook and its recorded call trace replayed on the model. Partial: true concurrency "
                      "(goroutine scheduling, tickers) is not in a theorem; it is exercised by a soak of real writers under the race "
                      "detector (gen_writer_race: concurrent clients, random CAS / anchor failures, Stop during processing) with "
                      "exactly-once, batch-shape and no-race oracles on the implementation.",
        "level_note": "Trusted: Coq kernel + vm_compute; harness (wrapper queue, failing CAS/anchor writer); go2v; hook batch.Writer.VerifStep "
                      "(build tag verif). Handler abstracted by its accounting contract (verified separately in C13).",
        "technique": "Coq invariant proof over all traces of an event-level step function + vm_compute replay of recorded call traces of "
                     "the real Writer/Cutter/MemQueue/Handler + oracles on the anchor log",
    },
    "C05": {
        "cmd": "c05", "seed": 5, "gentie": 0, "corr": ["Resolve", "Window"],
        "level_text": "Window function, default bound (anchorFrom + MaxOperationTimeDelta), inclusiveness, parameter independence and the out-of-window effect per operation type are Coq theorems for all (from, until, anchor, protocol); the window kernels of applier and parser are re-translated from the Go source on every run and proved equal to the model; the boundary sweep ties the rest of the model to the code.",
        "level_note": RESOLVE_NOTE + " Times below 2^62.",
        "technique": "Coq proof (window arithmetic, Apply effects) + source-regenerated kernels (go2v/GenTie) + vm_compute correspondence on a boundary sweep + configuration-independence oracle on the code",
        "coq_dirs": ["Parser/Window", "Resolve", "Corr/Resolve", "Corr/Window", "Props/C05", "GenTie/Window"],
        "rule": "signed update/recover/deactivate requests (5 key types) x (anchorFrom, anchorUntil) shapes x anchoring times at "
                "boundary-1/boundary/boundary+1 of every candidate bound (from, until, from+each numeric protocol parameter of every "
                "configuration) x 6 protocol configurations; non-trivial = a window is declared (from or until non-zero); "
                "distinct by (type, from, until, anchor, configuration)",
        "trusted_base": RESOLVE_TB,
        "assumptions": ["times below 2^62 (Unix seconds)", "single competitor per commitment, co-monotone coordinates (C02 covers the rest)"],
    },
}

# ---- addenda: theorems added after the first build (resolution level) ----
_ADD = {
    "C01": " Bridge (Resolve/FromView.v): on operations whose facts are COMPUTED from the request view, 'authorised' implies the "
           "signed-request rules, that the commitment consumed is that of the signing key, and that the signature primitive accepted "
           "the signing input under that key; a request whose signature the primitive refuses is rejected by Apply in every state.",
    "C02": " Resolve-level corollaries (Resolve/Earliest.v): every applied operation has a point (state, consumed commitments, "
           "competitors of its chain) at which it is the first eligible one of the prepared list; no eligible published competitor is "
           "anchored before it (strictly, for distinct coordinates); an unpublished operation is applied only if no published "
           "competitor is eligible; stated for resolve_full with any options, with non-vacuity on a three-way fork.",
    "C03": " The resolved state is the left fold of Apply over the chosen create and the applied operations (no hypothesis); on "
           "strictly ordered causal histories (forks allowed) Resolve equals ONE chronological pass (Resolve/Chrono.v: an operation "
           "takes effect iff it reveals the commitment in force when it is reached and Apply accepts it), and causality is needed "
           "(needs_causal); applied operations of a chain never reveal the same commitment (no 'follows' hypothesis any more).",
    "C04": " Composition (Resolve/IntakeTerminal.v): once the anchored history deactivates, the handler's decorator refuses every "
           "non-create request for every later extension of the store and every unpublished list; terminality is re-proved without "
           "the key_inj / no_zero_reveal hypotheses (stable sort; a deactivated chain never consults the candidate map).",
    "C06": " With additional operations (Resolve/VersionAdditional.v): the resolution option is exactly a merge into the stores "
           "(every option, full outcome); supplying history through the option equals having it stored (incl. the returned id lists); "
           "version time = truncation and version id = prefix of the MERGED sorted history; later additions cannot change the past.",
    "C14": " From the file BYTES (Batch/FilesOfBytes.v): the five batch files are decoded INSIDE Coq from their decompressed bytes "
           "(model of encoding/json for the file structs, incl. slice backing-array reuse, merging of duplicate members, pointer vs "
           "struct fields, case folding) and the anchor string is parsed from its text; the safety theorems (distinct suffixes, count = "
           "anchor count, size / decompression / URI limits, proof-reference discipline, bad file => the transaction fails) are "
           "restated for get_txn_operations on bytes; tied to the real decoders and provider by gen_files (value- and text-level "
           "mutations of real file sets, arbitrary bytes). gzip and the CAS remain facts. Per-type limits at provider level (Batch/PerType.v): every file a successful read used met the limit of its own type; one real provider is driven through one object in two roles (two_roles cases: limits hold on every read, whatever was read before).",
    "C09": " Detached-payload option (Jws/Detached.v): acceptance under WithJWSDetachedPayload(d) means the primitive accepted the "
           "signing input of the header and d, the payload segment plays no role; the real verifier is called with the option through "
           "the hook verifhooks.VerifyJWSDetached and the model is asked about the equivalent compact form (cases detached:*).",
    "C13": " The per-file round trip is proved at byte level (Batch/FilesOfBytesProofs.v): decoding the canonical JSON text of a file "
           "struct returns it, and every file the real handler writes is checked to be the canonical text of its decoded struct.",
    "C12": " At resolve level, without the 'follows' hypothesis: NoDup of the commitments revealed by the applied recover/deactivate "
           "operations and by the applied updates; each applied operation reveals the commitment in force, which was not consumed "
           "before, and does not re-commit to it or to a consumed one.",
}
for _k, _v in _ADD.items():
    PROPS[_k]["level_text"] += _v

# ---- the two model layers joined in the correspondence (added late in the build) ----
# C01: the abstract anchored operations the resolution checks run on are COMPUTED inside Coq from the raw request bytes
# (Resolve/FromBytes.v = FromView o ViewOfBytes) and compared with the real code's verdicts on those bytes and with the facts
# the harness states by construction; resolve_bytes is compared with processor.Resolve on whole histories.
PROPS["C01"]["gens"] = [{"name": "gen_bridge", "pkg": "./cmd/gen_bridge"}]
PROPS["C01"]["corr"] = PROPS["C01"]["corr"] + ["Bridge"]
PROPS["C01"]["coq_dirs"] = PROPS["C01"]["coq_dirs"] + ["Parser", "Json", "Jws", "Hash", "Corr/Bridge"]
PROPS["C01"]["level_text"] += (
    " From bytes (Resolve/FromBytes.v, gen_bridge): every operation's facts are computed in Coq from its raw request bytes (decoder, "
    "parser, hashing, JWS framing models) and must equal, field by field, what the real parser / verifier / hash check / delta "
    "validator decide on those bytes, and - up to fields resolution provably cannot observe (aop_norm, resolve_norm) - what the "
    "harness states by construction; resolve_bytes (the processor model on stored bytes) is compared with processor.Resolve on "
    "histories; the authorisation theorems are restated for bytes (forged_bytes_never_applies, resolve_bytes_applied_signed).")
PROPS["C01"]["trusted_base"] = list(PROPS["C01"]["trusted_base"]) + [
    "gen_bridge: remaining facts per operation are taken from the REAL code run on the bytes (signature primitive verdict, key "
    "decodability, per-patch validator verdict, ApplyPatches success, protocol-version lookup), not from the builder's flags"]
PROPS["C10"]["level_text"] += (
    " Validator inside the parser model (Parser/ViewValidated.v, gen_vlink): the per-patch verdicts are no longer facts - they are "
    "computed by the C18 validator model on the patches decoded in Coq from the request bytes and compared with the real "
    "patchvalidator / ValidateDelta / Parse on real signed requests carrying every kind of patch; an accepted create / update / recover "
    "has a non-empty patch list whose every patch satisfies the validator model and whose action is enabled (accepted_request_patches_validated), "
    "one refused patch rejects the request, and an accepted request's ietf-json-patch leaves the protected members unchanged (composition with C18).")
PROPS["C18"]["level_text"] += (
    " Linked to intake (Parser/ViewValidatedProofs.v): the validator model is the very function the parser model applies to the patches "
    "decoded from request bytes (delta_loop_agrees), so the C18 rules hold for every request the parser model accepts.")
PROPS["C11"]["level_text"] += (
    " From bytes: the view of the request the real builder returned is ALSO computed inside Coq from the request bytes "
    "(decoder model, Parser/ViewOfBytes.v) and must equal both the harness's decoding and the builder model's view, for every "
    "case; what remains a fact is the validator verdict per decoded patch.")
PROPS["C11"]["coq_dirs"] = PROPS["C11"]["coq_dirs"] + ["Json"]
