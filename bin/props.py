"""Per-property configuration of bin/check."""
RESOLVE_TB = [
    "modelled, not verified: per-operation verdicts of the lower layers (parse, reveal, signature, delta hash/validity, patch result) "
    "are facts fixed by construction of each generated request; sort.Slice/SliceStable trusted to sort for a strict weak order",
]
RESOLVE_DIRS = ["Parser/Window", "Resolve", "Corr/Resolve", "Corr/Intake", "Corr/MetaOps", "Base"]


def resolve_prop(cmd, seed, rule, extra_dirs=(), assumptions=()):
    return {"cmd": cmd, "seed": seed, "gentie": 0, "coq_dirs": RESOLVE_DIRS + list(extra_dirs) + ["Props/" + cmd.upper()],
            "rule": rule, "trusted_base": RESOLVE_TB, "assumptions": list(assumptions)}


PROPS = {
    "C01": resolve_prop("c01", 101,
        "legitimate commitment chains (keys of all 5 types, both hash algorithms) with unauthorised update/recover/deactivate operations "
        "(other key revealed, forged signature, flipped signature bit, re-encoded payload, reveal/signing-key mismatch) and duplicate "
        "creates (same request, other delta, no delta) interleaved at random anchoring positions; each history is resolved with and "
        "without the extras (metamorphic oracle) and compared with the model; non-trivial = at least one extra; distinct by letter "
        "sequence and result"),
    "C02": resolve_prop("c02", 102,
        "histories with competing operations per commitment, duplicate creates and unpublished operations; (time, number) drawn so that "
        "non-monotone pairs and shared times occur; every permutation of the published store for n<=5 (30 random ones above); all orders "
        "must agree (oracle on the implementation) and equal the model; plus metadata published-operation lists for permuted input; "
        "non-trivial = more than 2 published operations; distinct by letters and store order"),
    "C03": resolve_prop("c03", 103,
        "random histories (length 1-30) over the whole operation alphabet: valid, forked, failing/invalid/mismatching delta, in/out of "
        "window (explicit and default), replayed, cyclic, forged, duplicate creates, unpublished tail; every state field and the returned "
        "operation lists compared with the model; non-trivial = more than 2 operations; distinct by letter sequence and result"),
    "C04": resolve_prop("c04", 104,
        "histories ending in a valid deactivate (60%) or containing recovers, extended by 1-6 later operations (forged, validly signed "
        "with earlier keys, creates, replays); extended vs. base result compared (oracle on the implementation), model comparison, and "
        "DocumentHandler.ProcessOperation with the default decorator for every non-create extension of a deactivated DID; "
        "non-trivial = has an extension"),
    "C06": resolve_prop("c06", 106,
        "histories x every cut time (each operation time, +-1) and every canonical reference plus an unknown one, store order shuffled; "
        "Resolve(WithVersionTime/ID) over the full store vs Resolve over the truncated store (oracle on the implementation) and vs the model"),
    "C12": resolve_prop("c12", 112,
        "histories with a self-loop or a commitment cycle of length 2-5 in the update or recovery chain after 0-3 legitimate updates, "
        "optionally with an escape operation; must terminate (20 s bound) and equal the model; plus Parse(batch=false) over every pairing "
        "of revealed key and next commitments x both hash algorithms for update, recover and create"),
    "C05": {
        "cmd": "c05", "seed": 5, "gentie": 0,
        "coq_dirs": ["Parser/Window", "Resolve", "Corr/Resolve", "Corr/Window", "Props/C05", "GenTie/Window"],
        "rule": "signed update/recover/deactivate requests (5 key types) x (anchorFrom, anchorUntil) shapes x anchoring times at "
                "boundary-1/boundary/boundary+1 of every candidate bound (from, until, from+each numeric protocol parameter of every "
                "configuration) x 6 protocol configurations; non-trivial = a window is declared (from or until non-zero); "
                "distinct by (type, from, until, anchor, configuration)",
        "trusted_base": RESOLVE_TB,
        "assumptions": ["times below 2^62 (Unix seconds)", "single competitor per commitment, co-monotone coordinates (C02 covers the rest)"],
    },
}
