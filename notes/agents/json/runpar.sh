#!/bin/sh
# usage: runpar.sh <dir> <jobs>  -- replays all case files in parallel; one line per file in <dir>/results.txt
dir=$1
jobs=${2:-6}
cd /verif/coq || exit 1
: > "$dir/results.txt"
ls "$dir"/*.v | xargs -P "$jobs" -I{} sh -c '
  f={}; b=$(basename "$f" .v); d=$(dirname "$f")
  out=$(timeout 1800 coqc -Q theories SV -Q "$d" JCases "$f" 2>&1)
  if echo "$out" | tr -d "\n" | grep -q "M = *\[\] *: list nat"; then echo "OK $b" >> "$d/results.txt"; else echo "BAD $b: $(echo "$out" | tr "\n" " " | cut -c1-300)" >> "$d/results.txt"; fi
  rm -f "$d/$b.vo" "$d/$b.vok" "$d/$b.vos" "$d/$b.glob" "$d/.$b.aux"
'
echo "done: $(grep -c "^OK" "$dir/results.txt") ok, $(grep -c "^BAD" "$dir/results.txt") bad"
