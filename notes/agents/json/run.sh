#!/bin/sh
# usage: run.sh <dir with generated case files> [glob]
# compiles every case file against the model; prints the files whose mismatch list is not empty
dir=$1
pat=${2:-*.v}
cd /verif/coq || exit 1
total=0; bad=0
for f in "$dir"/$pat; do
  b=$(basename "$f" .v)
  out=$(timeout 900 coqc -Q theories SV -Q "$dir" JCases "$f" 2>&1)
  total=$((total+1))
  if echo "$out" | tr -d '\n' | grep -q 'M = *\[\] *: list nat'; then :; else bad=$((bad+1)); echo "== $b"; echo "$out" | head -20; fi
  rm -f "$dir/$b.vo" "$dir/$b.vok" "$dir/$b.vos" "$dir/$b.glob" "$dir/.$b.aux"
done
echo "files: $total, with mismatches or errors: $bad"
