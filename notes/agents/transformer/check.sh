#!/bin/bash
# usage: check.sh dir  -- runs coqc on every case file (4 in parallel), prints non-empty mismatch lists
cd "$1"
ls *.v | xargs -P 6 -I{} sh -c 'r=$(timeout 1800 coqc -Q /verif/coq/theories SV {} 2>&1 | tr "\n" " "); echo "{}: $r"' | sort
