// C10: the three size limits are Go `uint` protocol parameters compared as `len(x) > int(p.Limit)`.
// For a limit >= 2^63 the conversion wraps to a negative int and EVERY request is refused with
// "size[436] exceeds maximum ... size[9223372036854775808]", although 436 <= limit.
// (limits up to 2^63-1 behave correctly.)
package main

import (
	"fmt"
	"math"

	"github.com/trustbloc/sidetree-core-go/pkg/api/protocol"
)

func main() {
	r := build("", 0, 0)
	for _, c := range []struct {
		name string
		set  func(p *protocol.Protocol, v uint)
	}{
		{"MaxOperationSize", func(p *protocol.Protocol, v uint) { p.MaxOperationSize = v }},
		{"MaxDeltaSize", func(p *protocol.Protocol, v uint) { p.MaxDeltaSize = v }},
		{"MaxOperationHashLength", func(p *protocol.Protocol, v uint) { p.MaxOperationHashLength = v }},
	} {
		for _, v := range []uint{math.MaxInt64, math.MaxInt64 + 1, math.MaxUint64} {
			p := baseProto() // every other parameter at its ordinary value
			c.set(&p, v)
			fmt.Printf("%s = %d\n", c.name, v)
			r.each(func(n string, b []byte) { fmt.Printf("    %-10s (len %4d)  %s\n", n, len(b), parse(p, b)) })
		}
	}
}
