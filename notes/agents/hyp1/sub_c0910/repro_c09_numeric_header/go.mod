module repro_c09_numeric_header

go 1.21

require github.com/trustbloc/sidetree-core-go v0.0.0

require (
	github.com/btcsuite/btcd v0.22.0-beta // indirect
	github.com/square/go-jose/v3 v3.0.0-20200630053402-0a67ce9b0693 // indirect
	golang.org/x/crypto v0.1.0 // indirect
)

replace github.com/trustbloc/sidetree-core-go => /repo
