// C09: the verifier rebuilds the signing input from a LOSSY decode of the protected header
// (go-jose json: every number -> float64, re-printed with %g; invalid UTF-8 / lone surrogates -> U+FFFD).
// (a) a genuine JWS whose compact, sorted header has a numeric member >= 1e6 is rejected under the matching key,
//     even when it was produced by the library's own signing utility (signutil.SignPayload / jws.NewJWS);
// (b) a JWS that verifies keeps verifying after value-changing alterations of its decoded header.
package main

import (
	"crypto/ed25519"
	"crypto/rand"
	"encoding/base64"
	"fmt"
	"strings"

	"github.com/trustbloc/sidetree-core-go/pkg/jws"
	"github.com/trustbloc/sidetree-core-go/pkg/util/pubkey"
	"github.com/trustbloc/sidetree-core-go/pkg/verifhooks"
)

var b64 = base64.RawURLEncoding

type signer struct {
	priv ed25519.PrivateKey
	h    jws.Headers
}

func (s *signer) Sign(d []byte) ([]byte, error) { return ed25519.Sign(s.priv, d), nil }
func (s *signer) Headers() jws.Headers         { return s.h }

func verify(label, compact string, k *jws.JWK) {
	_, _, err := verifhooks.VerifyJWS(compact, k)
	res := "ACCEPTED"
	if err != nil {
		res = "rejected: " + err.Error()
	}
	hb, _ := b64.DecodeString(strings.Split(compact, ".")[0])
	fmt.Printf("%-58s header=%q\n    -> %s\n", label, hb, res)
}

func main() {
	pub, priv, _ := ed25519.GenerateKey(rand.Reader)
	k, _ := pubkey.GetPublicKeyJWK(pub)
	pl := []byte(`{"a":1}`)

	fmt.Println("(a) completeness: genuine JWS, matching key")
	for _, h := range []jws.Headers{
		{"alg": "EdDSA", "kid": "k"},
		{"alg": "EdDSA", "iat": 999999},
		{"alg": "EdDSA", "iat": 1000000},
		{"alg": "EdDSA", "iat": 1600000000},
		{"alg": "EdDSA", "iat": int64(1600000000)},
		{"alg": "EdDSA", "iat": float64(1600000000)},
		{"alg": "EdDSA", "v": 0.00001},
	} {
		s, err := verifhooks.SignPayload(pl, &signer{priv, h})
		if err != nil {
			fmt.Println("sign error", err)
			continue
		}
		verify(fmt.Sprintf("library SignPayload, iat/v is Go %T", firstNonAlg(h)), s, k)
	}
	// independent signer: header compact, members sorted, signature over the bytes as sent (RFC 7515)
	for _, h := range []string{`{"alg":"EdDSA","iat":1600000000}`, `{"alg":"EdDSA","iat":999999}`, `{"alg":"EdDSA","exp":1e6}`} {
		msg := b64.EncodeToString([]byte(h)) + "." + b64.EncodeToString(pl)
		verify("independent RFC 7515 signer", msg+"."+b64.EncodeToString(ed25519.Sign(priv, []byte(msg))), k)
	}

	fmt.Println("\n(b) soundness: JWS accepted, then its decoded header is changed (signature untouched)")
	s0, _ := verifhooks.SignPayload(pl, &signer{priv, jws.Headers{"alg": "EdDSA", "nonce": float64(9007199254740992), "kid": "�"}})
	verify("original (library-signed)", s0, k)
	p := strings.Split(s0, ".")
	for _, h := range []string{
		`{"alg":"EdDSA","kid":"�","nonce":9007199254740993}`,
		`{"alg":"EdDSA","kid":"�","nonce":9007199254740991.7}`,
		`{"alg":"EdDSA","kid":"\ud83d","nonce":9007199254740992}`,
		"{\"alg\":\"EdDSA\",\"kid\":\"\xff\",\"nonce\":9007199254740992}",
		`{"alg":"EdDSA","kid":"�","nonce":9007199254740994}`,
	} {
		verify("altered header, same payload+signature", b64.EncodeToString([]byte(h))+"."+p[1]+"."+p[2], k)
	}
}

func firstNonAlg(h jws.Headers) interface{} {
	for k, v := range h {
		if k != "alg" {
			return v
		}
	}
	return nil
}
