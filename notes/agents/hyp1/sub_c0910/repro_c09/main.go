package main

import (
	"crypto/ecdsa"
	"crypto/ed25519"
	"crypto/elliptic"
	"crypto/rand"
	"crypto/sha256"
	"crypto/sha512"
	"encoding/base64"
	"fmt"
	"math/big"
	"strings"

	"github.com/btcsuite/btcd/btcec"
	"github.com/trustbloc/sidetree-core-go/pkg/jws"
	"github.com/trustbloc/sidetree-core-go/pkg/util/pubkey"
	"github.com/trustbloc/sidetree-core-go/pkg/verifhooks"
)

var b64 = base64.RawURLEncoding

func try(label, compact string, k *jws.JWK) bool {
	var err error
	pan := ""
	func() {
		defer func() {
			if x := recover(); x != nil {
				pan = fmt.Sprint(x)
			}
		}()
		_, _, err = verifhooks.VerifyJWS(compact, k)
	}()
	res := "ACCEPT"
	if err != nil {
		res = "reject: " + err.Error()
	}
	if pan != "" {
		res = "PANIC: " + pan
	}
	fmt.Printf("%-60s %s\n", label, res)
	return err == nil && pan == ""
}

func hashFor(c elliptic.Curve, m []byte) []byte {
	switch c {
	case elliptic.P384():
		h := sha512.Sum384(m)
		return h[:]
	case elliptic.P521():
		h := sha512.Sum512(m)
		return h[:]
	default:
		h := sha256.Sum256(m)
		return h[:]
	}
}

func ecSign(priv *ecdsa.PrivateKey, msg []byte) []byte {
	r, s, err := ecdsa.Sign(rand.Reader, priv, hashFor(priv.Curve, msg))
	if err != nil {
		panic(err)
	}
	n := (priv.Curve.Params().BitSize + 7) / 8
	out := make([]byte, 2*n)
	r.FillBytes(out[:n])
	s.FillBytes(out[n:])
	return out
}

func compact(h string, pl []byte, sign func([]byte) []byte) string {
	msg := b64.EncodeToString([]byte(h)) + "." + b64.EncodeToString(pl)
	return msg + "." + b64.EncodeToString(sign([]byte(msg)))
}

func main() {
	pl := []byte(`{"a":1}`)
	// --- Ed25519
	edPub, edPriv, _ := ed25519.GenerateKey(rand.Reader)
	edJWK, _ := pubkey.GetPublicKeyJWK(edPub)
	edSign := func(m []byte) []byte { return ed25519.Sign(edPriv, m) }
	fmt.Println("== numeric header member beyond float64 precision (Ed25519)")
	h1 := `{"alg":"EdDSA","iat":9007199254740993}`
	h0 := `{"alg":"EdDSA","iat":9007199254740992}`
	g1 := compact(h1, pl, edSign)
	g0 := compact(h0, pl, edSign)
	try("genuine, header "+h1, g1, edJWK)
	try("genuine, header "+h0, g0, edJWK)
	// take g0 (accepted), alter the decoded header to h1 keeping the signature
	p0 := strings.Split(g0, ".")
	try("g0 with decoded header changed to ...993", b64.EncodeToString([]byte(h1))+"."+p0[1]+"."+p0[2], edJWK)
	try("g0 with decoded header changed to ...991", b64.EncodeToString([]byte(`{"alg":"EdDSA","iat":9007199254740991}`))+"."+p0[1]+"."+p0[2], edJWK)
	try("g0 with iat 9007199254740992.4", b64.EncodeToString([]byte(`{"alg":"EdDSA","iat":9007199254740992.4}`))+"."+p0[1]+"."+p0[2], edJWK)
	// strings: invalid UTF-8 / lone surrogates
	hs := `{"alg":"EdDSA","kid":"�"}`
	gs := compact(hs, pl, edSign)
	ps := strings.Split(gs, ".")
	try("genuine kid=\\ufffd (escaped spelling)", gs, edJWK)
	try("kid changed to lone surrogate \\ud800", b64.EncodeToString([]byte(`{"alg":"EdDSA","kid":"\ud800"}`))+"."+ps[1]+"."+ps[2], edJWK)
	try("kid changed to raw byte 0xff", b64.EncodeToString([]byte("{\"alg\":\"EdDSA\",\"kid\":\"\xff\"}"))+"."+ps[1]+"."+ps[2], edJWK)
	try("kid changed to raw byte 0xfe", b64.EncodeToString([]byte("{\"alg\":\"EdDSA\",\"kid\":\"\xfe\"}"))+"."+ps[1]+"."+ps[2], edJWK)
	// case variants of member names: go-jose json is case sensitive?
	try("member name 'ALG' only", compact(`{"ALG":"EdDSA"}`, pl, edSign), edJWK)
	// alg wrong types
	for _, h := range []string{`{"alg":1}`, `{"alg":null}`, `{"alg":"none"}`, `{"alg":"HS256"}`, `{"alg":"ES256"}`, `{"alg":["EdDSA"]}`, `{"alg":"EdDSA","crit":["x"]}`, `{"alg":"EdDSA","jwk":{"kty":"OKP"}}`} {
		try("correctly signed, header "+h, compact(h, pl, edSign), edJWK)
	}

	fmt.Println("== Ed25519 signature malleability / small order")
	gg := compact(`{"alg":"EdDSA"}`, pl, edSign)
	gp := strings.Split(gg, ".")
	sig, _ := b64.DecodeString(gp[2])
	// S + L
	L, _ := new(big.Int).SetString("7237005577332262213973186563042994240857116359379907606001950938285454250989", 10)
	sLE := make([]byte, 32)
	copy(sLE, sig[32:])
	rev := func(b []byte) []byte {
		o := make([]byte, len(b))
		for i := range b {
			o[len(b)-1-i] = b[i]
		}
		return o
	}
	S := new(big.Int).SetBytes(rev(sLE))
	S2 := new(big.Int).Add(S, L)
	if S2.BitLen() <= 256 {
		s2 := make([]byte, 32)
		S2.FillBytes(s2)
		sig2 := append(append([]byte{}, sig[:32]...), rev(s2)...)
		try("Ed25519 S+L", gp[0]+"."+gp[1]+"."+b64.EncodeToString(sig2), edJWK)
	}
	// small-order public key (identity): x = 0100..00
	id := make([]byte, 32)
	id[0] = 1
	soJWK := &jws.JWK{Kty: "OKP", Crv: "Ed25519", X: b64.EncodeToString(id)}
	forged := append(append([]byte{}, id...), make([]byte, 32)...)
	try("small-order key (identity), forged sig R=id,S=0", gp[0]+"."+gp[1]+"."+b64.EncodeToString(forged), soJWK)
	try("small-order key, genuine sig of other key", gg, soJWK)
	try("genuine key, forged sig R=id,S=0", gp[0]+"."+gp[1]+"."+b64.EncodeToString(forged), edJWK)
	for _, n := range []int{0, 1, 31, 33, 64} {
		kk := &jws.JWK{Kty: "OKP", Crv: "Ed25519", X: b64.EncodeToString(make([]byte, n))}
		try(fmt.Sprintf("OKP key of %d bytes", n), gg, kk)
	}
	try("OKP crv X25519", gg, &jws.JWK{Kty: "OKP", Crv: "X25519", X: edJWK.X})
	try("OKP crv ed25519 lower", gg, &jws.JWK{Kty: "OKP", Crv: "ed25519", X: edJWK.X})
	try("OKP crv empty", gg, &jws.JWK{Kty: "OKP", Crv: "", X: edJWK.X})
	try("OKP crv P-256", gg, &jws.JWK{Kty: "OKP", Crv: "P-256", X: edJWK.X})
	try("okp lower kty", gg, &jws.JWK{Kty: "okp", Crv: "Ed25519", X: edJWK.X})
	try("OKP with y member", gg, &jws.JWK{Kty: "OKP", Crv: "Ed25519", X: edJWK.X, Y: "AAAA"})
	try("OKP x with padding '='", gg, &jws.JWK{Kty: "OKP", Crv: "Ed25519", X: edJWK.X + "="})
	try("nil JWK", gg, nil)

	fmt.Println("== ECDSA")
	curves := map[string]elliptic.Curve{"P-256": elliptic.P256(), "P-384": elliptic.P384(), "P-521": elliptic.P521(), "secp256k1": btcec.S256()}
	algs := map[string]string{"P-256": "ES256", "P-384": "ES384", "P-521": "ES512", "secp256k1": "ES256K"}
	for _, name := range []string{"P-256", "P-384", "P-521", "secp256k1"} {
		c := curves[name]
		priv, _ := ecdsa.GenerateKey(c, rand.Reader)
		k, err := pubkey.GetPublicKeyJWK(&priv.PublicKey)
		if err != nil {
			fmt.Println("jwk err", err)
			continue
		}
		sign := func(m []byte) []byte { return ecSign(priv, m) }
		g := compact(fmt.Sprintf(`{"alg":"%s"}`, algs[name]), pl, sign)
		try(name+" genuine", g, k)
		parts := strings.Split(g, ".")
		sb, _ := b64.DecodeString(parts[2])
		n := len(sb) / 2
		N := c.Params().N
		r := new(big.Int).SetBytes(sb[:n])
		s := new(big.Int).SetBytes(sb[n:])
		mk := func(r, s *big.Int) (string, bool) {
			if r.BitLen() > 8*n || s.BitLen() > 8*n || r.Sign() < 0 || s.Sign() < 0 {
				return "", false
			}
			o := make([]byte, 2*n)
			r.FillBytes(o[:n])
			s.FillBytes(o[n:])
			return parts[0] + "." + parts[1] + "." + b64.EncodeToString(o), true
		}
		if v, ok := mk(r, new(big.Int).Sub(N, s)); ok {
			try(name+" twin (r, n-s)", v, k)
		}
		if v, ok := mk(new(big.Int).Add(r, N), s); ok {
			try(name+" (r+n, s)", v, k)
		} else {
			fmt.Println(name, "(r+n,s) does not fit")
		}
		if v, ok := mk(r, new(big.Int).Add(s, N)); ok {
			try(name+" (r, s+n)", v, k)
		} else {
			fmt.Println(name, "(r,s+n) does not fit")
		}
		if v, ok := mk(new(big.Int).Sub(N, r), s); ok {
			try(name+" (n-r, s)", v, k)
		}
		if v, ok := mk(big.NewInt(0), s); ok {
			try(name+" (0, s)", v, k)
		}
		if v, ok := mk(r, big.NewInt(0)); ok {
			try(name+" (r, 0)", v, k)
		}
		if v, ok := mk(r, N); ok {
			try(name+" (r, n)", v, k)
		}
		// alg / curve mismatch in header: header says other alg
		try(name+" header alg none, correctly signed", compact(`{"alg":"none"}`, pl, sign), k)
		try(name+" header alg EdDSA, correctly signed", compact(`{"alg":"EdDSA"}`, pl, sign), k)
		// key variants
		try(name+" key with kty lower", g, &jws.JWK{Kty: "ec", Crv: k.Crv, X: k.X, Y: k.Y})
		try(name+" key with crv lower", g, &jws.JWK{Kty: "EC", Crv: strings.ToLower(k.Crv), X: k.X, Y: k.Y})
		try(name+" key with crv upper", g, &jws.JWK{Kty: "EC", Crv: strings.ToUpper(k.Crv), X: k.X, Y: k.Y})
		try(name+" key x,y swapped", g, &jws.JWK{Kty: "EC", Crv: k.Crv, X: k.Y, Y: k.X})
		try(name+" key y empty", g, &jws.JWK{Kty: "EC", Crv: k.Crv, X: k.X, Y: ""})
		try(name+" key x empty", g, &jws.JWK{Kty: "EC", Crv: k.Crv, X: "", Y: k.Y})
		zero := b64.EncodeToString(make([]byte, n))
		try(name+" key (0,0)", g, &jws.JWK{Kty: "EC", Crv: k.Crv, X: zero, Y: zero})
		// negated y (on curve, other key)
		yb, _ := b64.DecodeString(k.Y)
		ny := new(big.Int).Sub(c.Params().P, new(big.Int).SetBytes(yb))
		nyb := make([]byte, n)
		ny.FillBytes(nyb)
		try(name+" key (x, p-y)", g, &jws.JWK{Kty: "EC", Crv: k.Crv, X: k.X, Y: b64.EncodeToString(nyb)})
		// y + p (non canonical) if fits
		yp := new(big.Int).Add(c.Params().P, new(big.Int).SetBytes(yb))
		if yp.BitLen() <= 8*n {
			ypb := make([]byte, n)
			yp.FillBytes(ypb)
			try(name+" key (x, y+p) non-canonical", g, &jws.JWK{Kty: "EC", Crv: k.Crv, X: k.X, Y: b64.EncodeToString(ypb)})
		}
		// x with base64 padding / std alphabet
		try(name+" key x with '=' padding", g, &jws.JWK{Kty: "EC", Crv: k.Crv, X: k.X + "=", Y: k.Y})
		// other curve name with these coords
		for on := range curves {
			if on != name {
				try(name+" coords declared as "+on, g, &jws.JWK{Kty: "EC", Crv: on, X: k.X, Y: k.Y})
			}
		}
		try(name+" coords declared as P-224", g, &jws.JWK{Kty: "EC", Crv: "P-224", X: k.X, Y: k.Y})
		try(name+" declared OKP", g, &jws.JWK{Kty: "OKP", Crv: k.Crv, X: k.X, Y: k.Y})
		try(name+" declared OKP/Ed25519", g, &jws.JWK{Kty: "OKP", Crv: "Ed25519", X: k.X, Y: k.Y})
		try(name+" declared RSA", g, &jws.JWK{Kty: "RSA", Crv: k.Crv, X: k.X, Y: k.Y})
		try(name+" declared oct", g, &jws.JWK{Kty: "oct", Crv: k.Crv, X: k.X, Y: k.Y})
	}

	fmt.Println("== compact strings")
	for _, s := range []string{"", ".", "..", "...", "a.b.c", "e30.e30.e30", "e30..", gp[0] + "." + gp[1] + "." + gp[2] + ".", "." + gp[0] + "." + gp[1] + "." + gp[2], gp[0] + "." + gp[1] + "=." + gp[2], gp[0] + "." + gp[1] + "." + gp[2] + "=", "{" + gg, " " + gg, gg + " ", gg + "\n", gp[0] + ".\n" + gp[1] + "." + gp[2], gp[0] + "\r\n." + gp[1] + "." + gp[2],
		b64.EncodeToString([]byte(`{"alg":"EdDSA"} `)) + "." + gp[1] + "." + gp[2], b64.EncodeToString([]byte(`{"alg":"EdDSA"}x`)) + "." + gp[1] + "." + gp[2],
		b64.EncodeToString([]byte(strings.Repeat("[", 100000))) + "." + gp[1] + "." + gp[2],
		b64.EncodeToString([]byte(`{"alg":"EdDSA","x":`+strings.Repeat("[", 20000)+strings.Repeat("]", 20000)+`}`)) + "." + gp[1] + "." + gp[2]} {
		lbl := s
		if len(lbl) > 50 {
			lbl = lbl[:50] + "..."
		}
		try(fmt.Sprintf("%q", lbl), s, edJWK)
	}
}
