package main

import (
	"crypto/ecdsa"
	"crypto/elliptic"
	"crypto/rand"
	"fmt"

	"github.com/trustbloc/sidetree-core-go/pkg/api/protocol"
	"github.com/trustbloc/sidetree-core-go/pkg/commitment"
	"github.com/trustbloc/sidetree-core-go/pkg/jws"
	"github.com/trustbloc/sidetree-core-go/pkg/patch"
	"github.com/trustbloc/sidetree-core-go/pkg/util/ecsigner"
	"github.com/trustbloc/sidetree-core-go/pkg/util/pubkey"
	"github.com/trustbloc/sidetree-core-go/pkg/versions/1_0/client"
	"github.com/trustbloc/sidetree-core-go/pkg/versions/1_0/operationparser"
)

const ns = "did:sidetree"
const sha2_256 = 18

func baseProto() protocol.Protocol {
	return protocol.Protocol{
		MaxOperationSize:       20000,
		MaxOperationHashLength: 100,
		MaxDeltaSize:           10000,
		MultihashAlgorithms:    []uint{sha2_256},
		SignatureAlgorithms:    []string{"ES256", "EdDSA"},
		KeyAlgorithms:          []string{"P-256", "Ed25519"},
		Patches:                []string{"replace", "add-public-keys", "remove-public-keys", "add-services", "remove-services", "ietf-json-patch"},
		MaxOperationTimeDelta:  7200,
		NonceSize:              16,
	}
}

type key struct {
	priv *ecdsa.PrivateKey
	jwk  *jws.JWK
}

func newKey(nonce string) key {
	p, _ := ecdsa.GenerateKey(elliptic.P256(), rand.Reader)
	j, err := pubkey.GetPublicKeyJWK(&p.PublicKey)
	if err != nil {
		panic(err)
	}
	j.Nonce = nonce
	return key{p, j}
}

func must(b []byte, err error) []byte {
	if err != nil {
		panic(err)
	}
	return b
}
func mustS(s string, err error) string {
	if err != nil {
		panic(err)
	}
	return s
}

type reqs struct {
	create, update, recover, deactivate []byte
	upd, rec                            key
}

const doc = `{"publicKey":[{"id":"k1","type":"JsonWebKey2020","purposes":["authentication"],"publicKeyJwk":{"kty":"EC","crv":"P-256","x":"PUymIqdtF_qxaAqPABSw-C-owT1KYYQbsMKFM-L9fJA","y":"nM84jDHCMOTGTh_ZdHq4dBBdo4Z5PkEOW9jA8z8IsGc"}}],"service":[{"id":"s1","type":"t","serviceEndpoint":"https://example.com/"}]}`

func build(nonce string, from, until int64) reqs {
	upd, rec, nupd, nrec := newKey(nonce), newKey(nonce), newKey(""), newKey("")
	var r reqs
	r.upd, r.rec = upd, rec
	r.create = must(client.NewCreateRequest(&client.CreateRequestInfo{OpaqueDocument: doc,
		RecoveryCommitment: mustS(commitment.GetCommitment(rec.jwk, sha2_256)), UpdateCommitment: mustS(commitment.GetCommitment(upd.jwk, sha2_256)), MultihashCode: sha2_256}))
	p, _ := patch.NewJSONPatch(`[{"op":"replace","path":"/name","value":"v"}]`)
	suffix := "EiDyOQbbZAa3aiRzeCkV7LOx3SERjjH93EXoIM3UoN4oWg"
	r.update = must(client.NewUpdateRequest(&client.UpdateRequestInfo{DidSuffix: suffix, Patches: []patch.Patch{p},
		UpdateCommitment: mustS(commitment.GetCommitment(nupd.jwk, sha2_256)), UpdateKey: upd.jwk, MultihashCode: sha2_256,
		Signer: ecsigner.New(upd.priv, "ES256", ""), RevealValue: mustS(commitment.GetRevealValue(upd.jwk, sha2_256)), AnchorFrom: from, AnchorUntil: until}))
	r.recover = must(client.NewRecoverRequest(&client.RecoverRequestInfo{DidSuffix: suffix, RecoveryKey: rec.jwk, OpaqueDocument: doc,
		RecoveryCommitment: mustS(commitment.GetCommitment(nrec.jwk, sha2_256)), UpdateCommitment: mustS(commitment.GetCommitment(nupd.jwk, sha2_256)),
		MultihashCode: sha2_256, Signer: ecsigner.New(rec.priv, "ES256", ""), RevealValue: mustS(commitment.GetRevealValue(rec.jwk, sha2_256)), AnchorFrom: from, AnchorUntil: until}))
	r.deactivate = must(client.NewDeactivateRequest(&client.DeactivateRequestInfo{DidSuffix: suffix, RecoveryKey: rec.jwk,
		Signer: ecsigner.New(rec.priv, "ES256", ""), RevealValue: mustS(commitment.GetRevealValue(rec.jwk, sha2_256)), AnchorFrom: from, AnchorUntil: until}))
	return r
}

func (r reqs) each(f func(name string, b []byte)) {
	f("create", r.create)
	f("update", r.update)
	f("recover", r.recover)
	f("deactivate", r.deactivate)
}

func parse(p protocol.Protocol, b []byte, opts ...operationparser.Option) (res string) {
	defer func() {
		if x := recover(); x != nil {
			res = fmt.Sprint("PANIC: ", x)
		}
	}()
	_, err := operationparser.New(p, opts...).Parse(ns, b)
	if err != nil {
		return "reject: " + err.Error()
	}
	return "ACCEPT"
}
