package main

import (
	"encoding/base64"
	"encoding/json"
	"fmt"
	"math/rand"
	"strings"

	"github.com/trustbloc/sidetree-core-go/pkg/canonicalizer"
	"github.com/trustbloc/sidetree-core-go/pkg/versions/1_0/operationparser"
)

var b64 = base64.RawURLEncoding

func short(s string) string {
	if len(s) > 90 {
		return s[:90] + "..."
	}
	return s
}

func pdid(nsp, did string) (res string) {
	defer func() {
		if x := recover(); x != nil {
			res = fmt.Sprint("PANIC: ", x)
		}
	}()
	d, req, err := operationparser.New(baseProto()).ParseDID(nsp, did)
	if err != nil {
		return "err: " + short(err.Error())
	}
	return fmt.Sprintf("did=%q req=%d bytes", short(d), len(req))
}

func main() {
	r := build("", 0, 0)
	// long form of the create request
	var cr map[string]interface{}
	_ = json.Unmarshal(r.create, &cr)
	delete(cr, "type")
	can, _ := canonicalizer.MarshalCanonical(cr)
	lf := b64.EncodeToString(can)
	suffix := "EiDyOQbbZAa3aiRzeCkV7LOx3SERjjH93EXoIM3UoN4oWg"
	good := ns + ":" + suffix + ":" + lf
	fmt.Println("good:", pdid(ns, good))
	cases := []struct{ n, d string }{
		{ns, ""}, {ns, ":"}, {ns, "::"}, {ns, ns}, {ns, ns + ":"}, {ns, ns + "::"}, {ns, ns + ":" + suffix + ":"}, {ns, ns + ":" + suffix + "::" + lf}, {ns, ns + ":" + suffix + ":" + lf + ":"},
		{ns, ns + ":" + suffix + ":!!!"}, {ns, ns + ":" + suffix + ":" + b64.EncodeToString([]byte("not json"))}, {ns, ns + ":" + suffix + ":" + b64.EncodeToString([]byte("null"))},
		{ns, ns + ":" + suffix + ":" + b64.EncodeToString([]byte("{}"))}, {ns, ns + ":" + suffix + ":" + b64.EncodeToString([]byte("[]"))}, {ns, ns + ":" + suffix + ":" + b64.EncodeToString([]byte(`{"delta":null}`))},
		{ns, ns + ":" + suffix + ":" + b64.EncodeToString([]byte(`{"delta":{},"suffixData":{}}`))}, {ns, ns + ":" + suffix + ":" + b64.EncodeToString([]byte(`{"delta":{"patches":[null]}}`))},
		{ns, ns + ":" + suffix + ":" + b64.EncodeToString([]byte(`{"type":"update"}`))}, {ns, ns + ":" + suffix + ":" + lf + "="}, {ns, ns + ":" + suffix + ":" + lf[:len(lf)-1]},
		{"", good}, {"", ""}, {":", good}, {"did", good}, {"did:sidetree:", good}, {good, good}, {suffix, good}, {ns, ns + ":" + ns + ":" + suffix + ":" + lf}, {ns, lf}, {ns, ":" + lf}, {ns, suffix + ":" + lf},
		{ns, ns + ":" + suffix + ":" + b64.EncodeToString([]byte(strings.Repeat("[", 100000)))}, {ns, ns + ":" + suffix + ":" + b64.EncodeToString([]byte(`{"delta":{"patches":[{"action":"replace","document":` + strings.Repeat("[", 9000) + strings.Repeat("]", 9000) + `}]}}`))},
		{ns, ns + ":" + suffix + ":" + b64.EncodeToString([]byte(`{"delta":{"patches":[{"a":1e400}]}}`))}, {ns, ns + ":" + suffix + ":" + b64.EncodeToString([]byte(`{"suffixData":{"anchorOrigin":1e999}}`))},
		{ns, ns + ":" + suffix + ":" + b64.EncodeToString([]byte(`{"suffixData":{"anchorOrigin":"\ud800"}}`))},
		{ns, "\x00:\xff:\xfe"}, {ns, strings.Repeat(":", 1000)},
	}
	for _, c := range cases {
		fmt.Printf("ns=%-16q did=%-60q %s\n", short(c.n)[:min(16, len(c.n))], short(c.d)[:min(60, len(c.d))], pdid(c.n, c.d))
	}
	// random mutations of the good DID and of requests through every entry point; only panics are reported
	rng := rand.New(rand.NewSource(1))
	ps := operationparser.New(baseProto())
	panics := 0
	guard := func(what string, in []byte, f func()) {
		defer func() {
			if x := recover(); x != nil {
				panics++
				if panics < 10 {
					fmt.Printf("PANIC in %s on %q: %v\n", what, short(string(in)), x)
				}
			}
		}()
		f()
	}
	seeds := [][]byte{r.create, r.update, r.recover, r.deactivate, can}
	n := 0
	for i := 0; i < 200000; i++ {
		s := append([]byte{}, seeds[rng.Intn(len(seeds))]...)
		for k := rng.Intn(4) + 1; k > 0; k-- {
			switch rng.Intn(5) {
			case 0:
				s[rng.Intn(len(s))] = byte(rng.Intn(256))
			case 1:
				j := rng.Intn(len(s))
				s = append(s[:j], s[j+rng.Intn(min(20, len(s)-j)):]...)
			case 2:
				j := rng.Intn(len(s))
				tok := []string{"null", "[", "{", "}", "]", `"`, ",", ":", "1e999", "-", `\u0000`, `\ud800`, "true", `"type"`, `"delta"`, `"patches"`, `"signedData"`}[rng.Intn(17)]
				s = append(s[:j], append([]byte(tok), s[j:]...)...)
			case 3:
				if len(s) > 2 {
					s = s[:rng.Intn(len(s))]
				}
			case 4:
				j, k2 := rng.Intn(len(s)), rng.Intn(len(s))
				s[j], s[k2] = s[k2], s[j]
			}
			if len(s) == 0 {
				s = []byte("{")
			}
		}
		n++
		guard("Parse", s, func() { _, _ = ps.Parse(ns, s) })
		guard("ParseOperation(batch)", s, func() { _, _ = ps.ParseOperation(ns, s, true) })
		guard("GetRevealValue", s, func() { _, _ = ps.GetRevealValue(s) })
		guard("GetCommitment", s, func() { _, _ = ps.GetCommitment(s) })
		d := ns + ":" + suffix + ":" + b64.EncodeToString(s)
		guard("ParseDID(b64)", []byte(d), func() { _, _, _ = ps.ParseDID(ns, d) })
		guard("ParseDID(raw)", s, func() { _, _, _ = ps.ParseDID(ns, string(s)) })
	}
	fmt.Println("random cases:", n, "panics:", panics)
}
