package main

import (
	"fmt"

	"github.com/trustbloc/sidetree-core-go/pkg/commitment"
	"github.com/trustbloc/sidetree-core-go/pkg/util/ecsigner"
	"github.com/trustbloc/sidetree-core-go/pkg/versions/1_0/client"
)

func main() {
	rec := newKey("")
	suffix := "EiDyOQbbZAa3aiRzeCkV7LOx3SERjjH93EXoIM3UoN4oWg"
	for _, alg := range []string{"ES256", "EdDSA", "none", "ES384"} {
		d := must(client.NewDeactivateRequest(&client.DeactivateRequestInfo{DidSuffix: suffix, RecoveryKey: rec.jwk,
			Signer: ecsigner.New(rec.priv, alg, ""), RevealValue: mustS(commitment.GetRevealValue(rec.jwk, sha2_256))}))
		p := baseProto()
		p.SignatureAlgorithms = []string{"EdDSA", "none"}
		fmt.Printf("P-256 key, ECDSA signature, header alg=%-6s SignatureAlgorithms=[EdDSA none] KeyAlgorithms has P-256: %s\n", alg, parse(p, d))
	}
}
