package main

import (
	"fmt"
	"math"

	"github.com/trustbloc/sidetree-core-go/pkg/api/protocol"
)

func short(s string) string {
	if len(s) > 110 {
		return s[:110] + "..."
	}
	return s
}

func main() {
	r := build("", 0, 0)
	fmt.Println("== baseline")
	r.each(func(n string, b []byte) { fmt.Printf("%-12s len=%d %s\n", n, len(b), short(parse(baseProto(), b))) })

	fmt.Println("== extreme values of each numeric parameter, one at a time (expected: >= actual size accepts)")
	huge := []uint64{0, 1, math.MaxInt32, math.MaxInt32 + 1, math.MaxUint32, math.MaxUint32 + 1, math.MaxInt64 - 1, math.MaxInt64, math.MaxInt64 + 1, math.MaxUint64 - 1, math.MaxUint64}
	for _, v := range huge {
		for _, f := range []struct {
			name string
			set  func(p *protocol.Protocol)
		}{
			{"MaxOperationSize", func(p *protocol.Protocol) { p.MaxOperationSize = uint(v) }},
			{"MaxDeltaSize", func(p *protocol.Protocol) { p.MaxDeltaSize = uint(v) }},
			{"MaxOperationHashLength", func(p *protocol.Protocol) { p.MaxOperationHashLength = uint(v) }},
			{"MaxOperationTimeDelta", func(p *protocol.Protocol) { p.MaxOperationTimeDelta = v }},
			{"NonceSize", func(p *protocol.Protocol) { p.NonceSize = v }},
		} {
			p := baseProto()
			f.set(&p)
			r.each(func(n string, b []byte) {
				fmt.Printf("%-24s=%-21d %-11s %s\n", f.name, v, n, short(parse(p, b)))
			})
		}
	}
}
