package main

import (
	"encoding/base64"
	"encoding/json"
	"fmt"
	"strings"

	"github.com/trustbloc/sidetree-core-go/pkg/api/protocol"
	"github.com/trustbloc/sidetree-core-go/pkg/versions/1_0/operationparser"
)

var b64 = base64.RawURLEncoding

func short(s string) string {
	if len(s) > 150 {
		return s[:150] + "..."
	}
	return s
}

func all(p protocol.Protocol, b []byte) string {
	out := []string{}
	run := func(name string, f func() (string, error)) {
		defer func() {
			if x := recover(); x != nil {
				out = append(out, name+"=PANIC:"+fmt.Sprint(x))
			}
		}()
		v, err := f()
		if err != nil {
			out = append(out, name+"=err")
		} else {
			out = append(out, name+"=OK("+short(v)+")")
		}
	}
	ps := operationparser.New(p)
	run("Parse", func() (string, error) { o, e := ps.Parse(ns, b); _ = o; return "", e })
	run("ParseOp(batch)", func() (string, error) { o, e := ps.ParseOperation(ns, b, true); _ = o; return "", e })
	run("Reveal", func() (string, error) { return ps.GetRevealValue(b) })
	run("Commit", func() (string, error) { return ps.GetCommitment(b) })
	return strings.Join(out, " ")
}

func mutate(b []byte, f func(m map[string]interface{})) []byte {
	var m map[string]interface{}
	if err := json.Unmarshal(b, &m); err != nil {
		panic(err)
	}
	f(m)
	o, _ := json.Marshal(m)
	return o
}

func main() {
	r := build("", 0, 0)
	p := baseProto()

	fmt.Println("== empty / nil lists")
	for _, c := range []struct {
		n string
		f func(p *protocol.Protocol)
	}{
		{"MultihashAlgorithms=nil", func(p *protocol.Protocol) { p.MultihashAlgorithms = nil }},
		{"SignatureAlgorithms=nil", func(p *protocol.Protocol) { p.SignatureAlgorithms = nil }},
		{"KeyAlgorithms=nil", func(p *protocol.Protocol) { p.KeyAlgorithms = nil }},
		{"Patches=nil", func(p *protocol.Protocol) { p.Patches = nil }},
		{"SignatureAlgorithms=[\"\"]", func(p *protocol.Protocol) { p.SignatureAlgorithms = []string{""} }},
		{"KeyAlgorithms=[\"\"]", func(p *protocol.Protocol) { p.KeyAlgorithms = []string{""} }},
		{"zero Protocol", func(p *protocol.Protocol) { *p = protocol.Protocol{} }},
	} {
		q := baseProto()
		c.f(&q)
		r.each(func(n string, b []byte) { fmt.Printf("%-28s %-10s %s\n", c.n, n, short(parse(q, b))) })
	}

	fmt.Println("== unknown member inside delta (dropped by decode): canonical size of the delta AS SENT vs MaxDeltaSize")
	q := baseProto()
	q.MaxDeltaSize = 500
	junk := strings.Repeat("A", 5000)
	for _, n := range []string{"create", "update", "recover"} {
		b := map[string][]byte{"create": r.create, "update": r.update, "recover": r.recover}[n]
		nb := mutate(b, func(m map[string]interface{}) { m["delta"].(map[string]interface{})["junk"] = junk })
		fmt.Printf("%-8s len=%d MaxDeltaSize=500: %s\n", n, len(nb), short(parse(q, nb)))
		nb2 := mutate(b, func(m map[string]interface{}) { m["junk"] = junk })
		fmt.Printf("%-8s len=%d top-level junk:   %s\n", n, len(nb2), short(parse(q, nb2)))
	}

	fmt.Println("== multihash shapes in an unsigned field (create.suffixData.recoveryCommitment)")
	digest := make([]byte, 32)
	mh := func(b ...byte) string { return b64.EncodeToString(b) }
	cases := map[string]string{
		"ok sha256":                 mh(append([]byte{0x12, 0x20}, digest...)...),
		"non-minimal code varint":   mh(append([]byte{0x92, 0x00, 0x20}, digest...)...),
		"non-minimal len varint":    mh(append([]byte{0x12, 0xa0, 0x00}, digest...)...),
		"trailing byte":             mh(append(append([]byte{0x12, 0x20}, digest...), 0)...),
		"len says 33, 32 present":   mh(append([]byte{0x12, 0x21}, digest...)...),
		"len says 31, 32 present":   mh(append([]byte{0x12, 0x1f}, digest...)...),
		"truncated digest 1 byte":   mh(0x12, 0x01, 0xaa),
		"zero-length digest":        mh(0x12, 0x00),
		"code only":                 mh(0x12),
		"empty string":              "",
		"sha512 code (not allowed)": mh(append([]byte{0x13, 0x40}, make([]byte, 64)...)...),
		"identity code 0":           mh(0x00, 0x01, 0xaa),
		"unknown code 0x7f":         mh(append([]byte{0x7f, 0x20}, digest...)...),
		"ok + newline inside":       mh(append([]byte{0x12, 0x20}, digest...)...)[:10] + "\n" + mh(append([]byte{0x12, 0x20}, digest...)...)[10:],
		"ok + padding '='":          mh(append([]byte{0x12, 0x20}, digest...)...) + "==",
		"trailing bits nonzero":     mh(append([]byte{0x12, 0x20}, digest...)...)[:45] + "B",
		"sha256 with 64-byte digest": mh(append([]byte{0x12, 0x40}, make([]byte, 64)...)...),
	}
	for n, v := range cases {
		nb := mutate(r.create, func(m map[string]interface{}) { m["suffixData"].(map[string]interface{})["recoveryCommitment"] = v })
		fmt.Printf("%-28s %-50q %s\n", n, short(v), short(parse(p, nb)))
	}

	fmt.Println("== hash length limit: on the encoded string; at L and L-1")
	for _, L := range []uint{46, 45, 34} {
		q := baseProto()
		q.MaxOperationHashLength = L
		fmt.Printf("MaxOperationHashLength=%d create: %s\n", L, short(parse(q, r.create)))
	}

	fmt.Println("== nonce")
	for _, nonce := range []string{b64.EncodeToString(make([]byte, 16)), b64.EncodeToString(make([]byte, 15)), b64.EncodeToString(make([]byte, 17)),
		b64.EncodeToString(make([]byte, 16))[:21] + "B", b64.EncodeToString(make([]byte, 16))[:5] + "\n" + b64.EncodeToString(make([]byte, 16))[5:], "\n", "\r\n\r\n", "A", "==", strings.Repeat("\n", 30)} {
		rn := build(nonce, 0, 0)
		for _, ns := range []uint64{16, 0} {
			q := baseProto()
			q.NonceSize = ns
			fmt.Printf("nonce %-28q NonceSize=%-2d update: %s | deactivate: %s\n", nonce, ns, short(parse(q, rn.update)), short(parse(q, rn.deactivate)))
		}
	}

	fmt.Println("== JSON type confusion / shapes, all entry points")
	shapes := []string{``, ` `, `null`, `true`, `1`, `"x"`, `[]`, `{}`, `[{"type":"create"}]`, `{"type":1}`, `{"type":null}`, `{"type":"create"}`, `{"type":"update"}`, `{"type":"recover"}`, `{"type":"deactivate"}`,
		`{"type":"create","suffixData":[]}`, `{"type":"create","suffixData":{}}`, `{"type":"create","suffixData":null,"delta":null}`, `{"type":"create","suffixData":"x"}`, `{"type":"create","delta":"string"}`,
		`{"type":"create","suffixData":{"deltaHash":1}}`, `{"type":"create","suffixData":{"deltaHash":"EiA","recoveryCommitment":"EiA"},"delta":{"patches":null}}`,
		`{"type":"create","suffixData":{"deltaHash":"EiA","recoveryCommitment":"EiA"},"delta":{"patches":[null]}}`,
		`{"type":"create","suffixData":{"deltaHash":"EiA","recoveryCommitment":"EiA"},"delta":{"patches":[{}]}}`,
		`{"type":"create","suffixData":{"deltaHash":"EiA","recoveryCommitment":"EiA"},"delta":{"patches":[{"action":1}]}}`,
		`{"type":"update","didSuffix":"x","revealValue":"y","signedData":{}}`, `{"type":"update","didSuffix":"x","revealValue":"y","signedData":"a.b.c"}`,
		`{"type":"update","didSuffix":"x","revealValue":"EiAAAAAAAAAAAAAAAAAAAAAAAAAAAAAAAAAAAAAAAAAAAA","signedData":"e30.e30.e30"}`,
		`{"type":"update","didSuffix":"x","revealValue":"EiAAAAAAAAAAAAAAAAAAAAAAAAAAAAAAAAAAAAAAAAAAAA","signedData":"eyJhbGciOiJFUzI1NiJ9.bnVsbA.AA"}`,
		`{"type":"update","didSuffix":"x","revealValue":"EiAAAAAAAAAAAAAAAAAAAAAAAAAAAAAAAAAAAAAAAAAAAA","signedData":"eyJhbGciOiJFUzI1NiJ9.e30.AA"}`,
		`{"type":"recover","didSuffix":"x","revealValue":"EiAAAAAAAAAAAAAAAAAAAAAAAAAAAAAAAAAAAAAAAAAAAA","signedData":"eyJhbGciOiJFUzI1NiJ9.bnVsbA.AA"}`,
		`{"type":"deactivate","didSuffix":"x","revealValue":"EiAAAAAAAAAAAAAAAAAAAAAAAAAAAAAAAAAAAAAAAAAAAA","signedData":"eyJhbGciOiJFUzI1NiJ9.bnVsbA.AA"}`,
		`{"type":"deactivate","didSuffix":"x","revealValue":"EiAAAAAAAAAAAAAAAAAAAAAAAAAAAAAAAAAAAAAAAAAAAA","signedData":"eyJhbGciOiJFUzI1NiJ9.eyJyZWNvdmVyeUtleSI6bnVsbH0.AA"}`,
		`{"type":"deactivate","didSuffix":"x","revealValue":"EiAAAAAAAAAAAAAAAAAAAAAAAAAAAAAAAAAAAAAAAAAAAA","signedData":"eyJhbGciOm51bGx9.e30.AA"}`,
		strings.Repeat("[", 10000), strings.Repeat(`{"type":`, 5000), `{"type":"create","suffixData":` + strings.Repeat("[", 9000) + strings.Repeat("]", 9000) + `}`,
		"{\"type\":\"create\"}\x00", "\xef\xbb\xbf{\"type\":\"create\"}", `{"Type":"deactivate"}`, `{"TYPE":"create","SUFFIXDATA":{},"DELTA":{}}`,
	}
	for _, s := range shapes {
		fmt.Printf("%-70q %s\n", short(s)[:min(len(s), 70)], all(p, []byte(s)))
	}
	// valid requests through every entry point
	r.each(func(n string, b []byte) { fmt.Printf("valid %-10s %s\n", n, all(p, b)) })
	// valid requests with members replaced by wrong types
	r.each(func(n string, b []byte) {
		var m map[string]interface{}
		_ = json.Unmarshal(b, &m)
		for k := range m {
			for _, v := range []interface{}{nil, 1, "s", []interface{}{}, map[string]interface{}{}, true} {
				nb := mutate(b, func(m map[string]interface{}) { m[k] = v })
				res := all(p, nb)
				if strings.Contains(res, "PANIC") || strings.Contains(res, "Parse=OK") {
					fmt.Printf("%s.%s=%v: %s\n", n, k, v, res)
				}
			}
			nb := mutate(b, func(m map[string]interface{}) { delete(m, k) })
			res := all(p, nb)
			if strings.Contains(res, "PANIC") || strings.Contains(res, "Parse=OK") {
				fmt.Printf("%s without %s: %s\n", n, k, res)
			}
		}
	})
}
