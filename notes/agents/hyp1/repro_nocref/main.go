// C04 / stores_ok ("Forall published pub"): operation store whose anchored operations carry NO canonical reference
// (ledger integration that leaves SidetreeTxn.CanonicalReference empty; txnprocessor copies it verbatim).
// History: create(t=10) commits update key K1, recovery key R1
//          update U1 (t=11) reveals K1, commits K2
//          recover R (t=12) reveals R1, commits R2 and RE-COMMITS to K1 as update key
// C04: "no update anchored at or before the recover's transaction is ever applied on top of it".
package main

import (
	"fmt"
	"math/rand"

	"github.com/trustbloc/sidetree-core-go/pkg/api/operation"
	"github.com/trustbloc/sidetree-core-go/pkg/processor"

	"hyp/world"
)

type store struct{ ops []*operation.AnchoredOperation }

func (s *store) Get(string) ([]*operation.AnchoredOperation, error) {
	out := make([]*operation.AnchoredOperation, len(s.ops))
	for i, o := range s.ops {
		c := *o
		out[i] = &c
	}
	return out, nil
}

func main() {
	kp := world.NewKeyPool(10)
	tb := world.NewTable()
	d := world.NewDID(kp, tb, rand.New(rand.NewSource(1)), world.SHA256)
	pc := &world.Client{Versions: []*world.Version{world.NewVersion("1.0", world.DefaultProtocol(), world.VersionOpts{})}}

	k1 := d.CurUpd
	k2 := d.Keys[5]
	r2 := d.Keys[6]
	u1 := world.Build(d.ValidUpdate(k2, "U1"))
	rec := world.Build(d.ValidRecover(r2, k1, "R")) // re-commits to the already revealed update key K1

	for _, withRef := range []bool{true, false} {
		mk := func(op *world.Op, t uint64, ref string) *operation.AnchoredOperation {
			a := &operation.AnchoredOperation{Type: op.Spec.Type, OperationRequest: op.Request, UniqueSuffix: d.Suffix,
				TransactionTime: t, TransactionNumber: 0}
			if withRef {
				a.CanonicalReference = ref
			}
			return a
		}
		st := &store{ops: []*operation.AnchoredOperation{mk(d.Create, 10, "a"), mk(u1, 11, "b"), mk(rec, 12, "c")}}
		rm, err := processor.New("x", st, pc).Resolve(d.Suffix)
		if err != nil {
			fmt.Println("error", err)
			continue
		}
		fmt.Printf("canonical references present=%v: doc key ids=%v  (recover content id=%d, earlier update U1 content id=%d) last op time=%d\n",
			withRef, world.DocIDs(rm.Doc), rec.Spec.DeltaID, u1.Spec.DeltaID, rm.LastOperationTransactionTime)
	}
}
