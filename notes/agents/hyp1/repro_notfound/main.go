// C06 ("an unknown version id ... is an error") and C08 ("a long-form DID that is NOT YET ANCHORED resolves ...") through
// the public entry point DocumentHandler.ResolveDocument.
// handler.go: `if createReq != nil && strings.Contains(err.Error(), "not found")` - the processor's error text embeds
// the caller-supplied version id / version time, so a version id that contains "not found" makes an error of an
// ANCHORED (here even DEACTIVATED) DID look like "DID not found" and the long-form initial state is returned.
package main

import (
	"encoding/json"
	"fmt"
	"math/rand"
	"net/http"
	"net/http/httptest"
	"net/url"
	"time"

	"github.com/gorilla/mux"
	restdoc "github.com/trustbloc/sidetree-core-go/pkg/restapi/dochandler"

	"github.com/trustbloc/sidetree-core-go/pkg/api/operation"
	"github.com/trustbloc/sidetree-core-go/pkg/canonicalizer"
	"github.com/trustbloc/sidetree-core-go/pkg/dochandler"
	"github.com/trustbloc/sidetree-core-go/pkg/document"
	"github.com/trustbloc/sidetree-core-go/pkg/encoder"
	"github.com/trustbloc/sidetree-core-go/pkg/mocks"
	"github.com/trustbloc/sidetree-core-go/pkg/processor"
	"github.com/trustbloc/sidetree-core-go/pkg/versions/1_0/model"

	"hyp/world"
)

type store struct{ ops []*operation.AnchoredOperation }

func (s *store) Get(string) ([]*operation.AnchoredOperation, error) {
	out := make([]*operation.AnchoredOperation, len(s.ops))
	for i, o := range s.ops {
		c := *o
		out[i] = &c
	}
	return out, nil
}

type nopWriter struct{}

func (nopWriter) Add(*operation.QueuedOperation, uint64) error { return nil }

func main() {
	kp := world.NewKeyPool(10)
	tb := world.NewTable()
	d := world.NewDID(kp, tb, rand.New(rand.NewSource(1)), world.SHA256)
	pc := &world.Client{Versions: []*world.Version{world.NewVersion("1.0", world.DefaultProtocol(), world.VersionOpts{})}}
	deact := world.Build(d.ValidDeactivate("D"))

	mk := func(op *world.Op, t uint64, ref string) *operation.AnchoredOperation {
		return &operation.AnchoredOperation{Type: op.Spec.Type, OperationRequest: op.Request, UniqueSuffix: d.Suffix,
			TransactionTime: t, CanonicalReference: ref}
	}
	st := &store{ops: []*operation.AnchoredOperation{mk(d.Create, 10, "refA"), mk(deact, 20, "refB")}}
	proc := processor.New("x", st, pc)
	h := dochandler.New("did:sidetree", nil, pc, nopWriter{}, proc, &mocks.MetricsProvider{})

	var cr model.CreateRequest
	world.Must(json.Unmarshal(d.Create.Request, &cr))
	cr.Operation = ""
	jcs, err := canonicalizer.MarshalCanonical(cr)
	world.Must(err)
	short := "did:sidetree:" + d.Suffix
	long := short + ":" + encoder.EncodeToString(jcs)

	show := func(label, did string, opts ...document.ResolutionOption) {
		r, err := h.ResolveDocument(did, opts...)
		if err != nil {
			fmt.Printf("%-60s -> ERROR %v\n", label, err)
			return
		}
		vm, _ := r.Document["authentication"].([]interface{})
		fmt.Printf("%-60s -> OK authentication entries=%d deactivated=%v published=%v\n", label, len(vm),
			r.DocumentMetadata[document.DeactivatedProperty], r.DocumentMetadata[document.MethodProperty].(document.Metadata)[document.PublishedProperty])
	}
	show("short form, latest", short)
	show("long form, latest", long)
	show("short form, versionId=refA", short, document.WithVersionID("refA"))
	show("long form, versionId=unknown", long, document.WithVersionID("unknown"))
	show("short form, versionId='not found'", short, document.WithVersionID("not found"))
	show("long form, versionId='not found'   (unknown id)", long, document.WithVersionID("not found"))
	show("long form, versionId='x-not found-y' (unknown id)", long, document.WithVersionID("x-not found-y"))
	show("long form, versionTime='not found' (not a time)", long, document.WithVersionTime("not found"))
	show("long form, versionTime=1970-01-01T00:00:05Z (before first op)", long, document.WithVersionTime("1970-01-01T00:00:05Z"))

	// the same through the REST resolve handler, as a client would
	rh := restdoc.NewResolveHandler(h, restMetrics{})
	router := mux.NewRouter()
	router.HandleFunc("/identifiers/{id}", rh.Resolve).Methods(http.MethodGet)
	srv := httptest.NewServer(router)
	defer srv.Close()
	for _, q := range []string{"", "?versionId=unknown", "?versionId=" + url.QueryEscape("not found")} {
		resp, err := http.Get(srv.URL + "/identifiers/" + long + q)
		world.Must(err)
		fmt.Printf("GET /identifiers/<long form>%s -> HTTP %d\n", q, resp.StatusCode)
		resp.Body.Close()
	}
}

type restMetrics struct{}

func (restMetrics) HTTPResolveTime(time.Duration) {}
