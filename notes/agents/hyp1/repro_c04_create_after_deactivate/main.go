// C04: intake of operations for a DEACTIVATED DID through DocumentHandler.ProcessOperation (default decorator).
// the public entry point DocumentHandler.ResolveDocument.
// handler.go: `if createReq != nil && strings.Contains(err.Error(), "not found")` - the processor's error text embeds
// the caller-supplied version id / version time, so a version id that contains "not found" makes an error of an
// ANCHORED (here even DEACTIVATED) DID look like "DID not found" and the long-form initial state is returned.
package main

import (
	"fmt"
	"math/rand"

	"github.com/trustbloc/sidetree-core-go/pkg/api/operation"
	"github.com/trustbloc/sidetree-core-go/pkg/dochandler"
	"github.com/trustbloc/sidetree-core-go/pkg/mocks"
	"github.com/trustbloc/sidetree-core-go/pkg/processor"

	"hyp/world"
)

type store struct{ ops []*operation.AnchoredOperation }

func (s *store) Get(string) ([]*operation.AnchoredOperation, error) {
	out := make([]*operation.AnchoredOperation, len(s.ops))
	for i, o := range s.ops {
		c := *o
		out[i] = &c
	}
	return out, nil
}

type nopWriter struct{}

func (nopWriter) Add(*operation.QueuedOperation, uint64) error { return nil }

func main() {
	kp := world.NewKeyPool(10)
	tb := world.NewTable()
	d := world.NewDID(kp, tb, rand.New(rand.NewSource(1)), world.SHA256)
	pc := &world.Client{Versions: []*world.Version{world.NewVersion("1.0", world.DefaultProtocol(), world.VersionOpts{})}}
	deact := world.Build(d.ValidDeactivate("D"))

	mk := func(op *world.Op, t uint64, ref string) *operation.AnchoredOperation {
		return &operation.AnchoredOperation{Type: op.Spec.Type, OperationRequest: op.Request, UniqueSuffix: d.Suffix,
			TransactionTime: t, CanonicalReference: ref}
	}
	st := &store{ops: []*operation.AnchoredOperation{mk(d.Create, 10, "refA"), mk(deact, 20, "refB")}}
	proc := processor.New("x", st, pc)
	h := dochandler.New("did:sidetree", nil, pc, nopWriter{}, proc, &mocks.MetricsProvider{})

	upd := world.Build(d.ValidUpdate(d.Keys[5], "U"))
	rec := world.Build(d.ValidRecover(d.Keys[6], d.Keys[7], "R"))
	for _, c := range []struct {
		name string
		op   *world.Op
	}{{"update", upd}, {"recover", rec}, {"deactivate (again)", deact}, {"create (same request replayed)", d.Create}} {
		_, err := h.ProcessOperation(c.op.Request, 0)
		fmt.Printf("ProcessOperation(%s) on deactivated DID -> err=%v\n", c.name, err)
	}
}
