// C05: signed anchorFrom / anchorUntil at the int64 extremes (the harness only ever used small integers: its payload
// builder round-trips through float64). Anchoring time 1500, MaxOperationTimeDelta 7200.
package main

import (
	"encoding/base64"
	"fmt"
	"math/rand"
	"strings"

	"github.com/trustbloc/sidetree-core-go/pkg/api/operation"
	"github.com/trustbloc/sidetree-core-go/pkg/processor"
	"github.com/trustbloc/sidetree-core-go/pkg/versions/1_0/operationparser"

	"hyp/world"
)

type store struct{ ops []*operation.AnchoredOperation }

func (s *store) Get(string) ([]*operation.AnchoredOperation, error) {
	out := make([]*operation.AnchoredOperation, len(s.ops))
	for i, o := range s.ops {
		c := *o
		out[i] = &c
	}
	return out, nil
}

type recorder struct {
	from, until int64
	called      bool
}

func (r *recorder) Validate(from, until int64) error { r.from, r.until, r.called = from, until, true; return nil }

var b64 = base64.RawURLEncoding

func main() {
	kp := world.NewKeyPool(10)
	tb := world.NewTable()
	d := world.NewDID(kp, tb, rand.New(rand.NewSource(1)), world.SHA256)
	rec := &recorder{}
	pc := &world.Client{Versions: []*world.Version{world.NewVersion("1.0", world.DefaultProtocol(), world.VersionOpts{
		ParserOpts: []operationparser.Option{operationparser.WithAnchorTimeValidator(rec)}})}}

	cases := []struct {
		from, until string
		expectIn    bool // property: (f=0 and u=0) or f <= 1500 <= (u if u != 0 else f+7200)
	}{
		{"1000", "", true},
		{"9223372036854775807", "", false},                     // f > a
		{"9223372036854770000", "", false},                     // f + delta overflows int64
		{"-9223372036854775808", "", false},                    // window ends at MinInt64+7200 < a
		{"-5700", "", true},                                    // [-5700, 1500]
		{"-5701", "", false},                                   // [-5701, 1499]
		{"1", "9223372036854775807", true},                     //
		{"-9223372036854775808", "9223372036854775807", true},  //
		{"", "1500", true},                                     // only until
		{"", "1499", false},                                    //
		{"", "-1", false},                                      //
		{"1500", "-1", false},                                  // explicit negative until
		{"9223372036854775808", "", false},                     // does not fit int64: request must be refused
		{"1e3", "", false},                                     // not an integer literal for encoding/json
		{"1000.0", "", false},
	}
	for _, c := range cases {
		spec := d.ValidUpdate(d.Keys[5], "U")
		spec.From, spec.Until = 424242, 535353
		u := world.Build(spec)
		// rebuild the signed data with the literal numbers
		reqs := string(u.Request)
		i := strings.Index(reqs, `"signedData":"`) + len(`"signedData":"`)
		j := i + strings.Index(reqs[i:], `"`)
		parts := strings.Split(reqs[i:j], ".")
		hdr, _ := b64.DecodeString(parts[0])
		pl, _ := b64.DecodeString(parts[1])
		p := string(pl)
		if c.from == "" {
			p = strings.Replace(p, `"anchorFrom":424242,`, ``, 1)
		} else {
			p = strings.Replace(p, `"anchorFrom":424242`, `"anchorFrom":`+c.from, 1)
		}
		if c.until == "" {
			p = strings.Replace(p, `"anchorUntil":535353,`, ``, 1)
		} else {
			p = strings.Replace(p, `"anchorUntil":535353`, `"anchorUntil":`+c.until, 1)
		}
		if strings.Contains(p, "424242") || strings.Contains(p, "535353") {
			panic("substitution failed: " + p)
		}
		jws := world.CompactJWS(string(hdr), []byte(p), spec.SignWith)
		req := []byte(reqs[:i] + jws + reqs[j:])

		mk := func(t operation.Type, r []byte, tm uint64, ref string) *operation.AnchoredOperation {
			return &operation.AnchoredOperation{Type: t, OperationRequest: r, UniqueSuffix: d.Suffix, TransactionTime: tm, CanonicalReference: ref}
		}
		st := &store{ops: []*operation.AnchoredOperation{mk(operation.TypeCreate, d.Create.Request, 900, "a"), mk(operation.TypeUpdate, req, 1500, "b")}}
		rm, err := processor.New("x", st, pc).Resolve(d.Suffix)
		if err != nil {
			fmt.Println("error", err)
			continue
		}
		applied := len(world.DocIDs(rm.Doc)) == 2
		consumed := rm.UpdateCommitment == d.Keys[5].Commitment(world.SHA256)
		rec.called = false
		_, perr := pc.Versions[0].Parser.Parse("did:sidetree", req)
		flag := ""
		if applied != c.expectIn {
			flag = "   <<<<<< DIFFERS FROM PROPERTY"
		}
		pe := "<nil>"
		if perr != nil {
			pe = perr.Error()
			if len(pe) > 60 {
				pe = pe[:60] + "..."
			}
		}
		fmt.Printf("from=%-22q until=%-22q: took effect=%-5v commitment consumed=%-5v expected in window=%-5v | intake: validator called=%v (%d,%d) err=%s%s\n",
			c.from, c.until, applied, consumed, c.expectIn, rec.called, rec.from, rec.until, pe, flag)
	}
}
