// Differential test of number formatting and UTF-16 key ordering through canonicalizer.MarshalCanonical([]byte).
package main

import (
	"fmt"
	"math"
	"math/big"
	"math/rand"
	"sort"
	"strconv"
	"strings"
	"unicode/utf16"

	"github.com/trustbloc/sidetree-core-go/pkg/canonicalizer"
)

// independent ES6 Number::toString from the shortest digits (strconv 'e', -1 gives digits d.ddde±xx)
func es6(f float64) string {
	if f == 0 {
		return "0"
	}
	sign := ""
	if f < 0 {
		sign, f = "-", -f
	}
	e := strconv.FormatFloat(f, 'e', -1, 64)
	i := strings.IndexByte(e, 'e')
	mant, exps := e[:i], e[i+1:]
	x, _ := strconv.Atoi(exps)
	digs := strings.Replace(mant, ".", "", 1)
	k, n := len(digs), x+1
	switch {
	case k <= n && n <= 21:
		return sign + digs + strings.Repeat("0", n-k)
	case 0 < n && n <= 21:
		return sign + digs[:n] + "." + digs[n:]
	case -6 < n && n <= 0:
		return sign + "0." + strings.Repeat("0", -n) + digs
	}
	es := "+"
	if n-1 < 0 {
		es = "-"
	}
	ab := n - 1
	if ab < 0 {
		ab = -ab
	}
	if k == 1 {
		return sign + digs + "e" + es + strconv.Itoa(ab)
	}
	return sign + digs[:1] + "." + digs[1:] + "e" + es + strconv.Itoa(ab)
}

func main() {
	rng := rand.New(rand.NewSource(7))
	bad := 0
	check := func(f float64, spelled string) {
		out, err := canonicalizer.MarshalCanonical([]byte("[" + spelled + "]"))
		want := "[" + es6(f) + "]"
		if err != nil || string(out) != want {
			bad++
			if bad < 20 {
				fmt.Printf("MISMATCH bits=%016x spelled=%s got=%s err=%v want=%s\n", math.Float64bits(f), spelled, out, err, want)
			}
		}
	}
	n := 0
	for i := 0; i < 400000; i++ {
		var f float64
		switch i % 4 {
		case 0:
			f = math.Float64frombits(rng.Uint64())
		case 1: // integers in [1e11, 1e21) with trailing zeros in shortest form (the "fix" branch)
			f = math.Floor(math.Pow(10, 11+rng.Float64()*10.2))
		case 2: // exponent edge mantissas
			f = math.Float64frombits(uint64(rng.Intn(2047))<<52 | uint64(rng.Intn(4)) | uint64(rng.Intn(2))*((1<<52)-1-uint64(rng.Intn(4))))
		case 3: // short decimals
			f, _ = strconv.ParseFloat(fmt.Sprintf("%de%d", rng.Intn(100000), rng.Intn(640)-330), 64)
		}
		if math.IsNaN(f) || math.IsInf(f, 0) {
			continue
		}
		n++
		check(f, strconv.FormatFloat(f, 'e', -1, 64))
		if i%8 == 0 { // exact decimal expansion spelling (hundreds of digits)
			bf := new(big.Float).SetFloat64(f)
			check(f, bf.Text('f', 1100))
		}
		if i%8 == 1 {
			check(f, strconv.FormatFloat(f, 'e', 25, 64))
		}
	}
	fmt.Println("numbers checked:", n, "mismatches:", bad)

	// key order: random keys over a tricky alphabet, compare with independent UTF-16 sort
	alpha := []rune{0, 1, 0x1f, ' ', '"', '\\', '/', 'a', 'b', 0x7f, 0x80, 0xe9, 0x7ff, 0x800, 0xd7ff, 0xe000, 0xfffd, 0xfffe, 0xffff, 0x10000, 0x1f600, 0x10ffff}
	kbad := 0
	for it := 0; it < 20000; it++ {
		keys := map[string]bool{}
		for len(keys) < 2+rng.Intn(6) {
			var r []rune
			for j := rng.Intn(4); j >= 0; j-- {
				r = append(r, alpha[rng.Intn(len(alpha))])
			}
			if rng.Intn(5) == 0 {
				r = r[:0]
			}
			keys[string(r)] = true
		}
		var ks []string
		for k := range keys {
			ks = append(ks, k)
		}
		enc := func(s string) string { // JSON text with random escaping style
			var b strings.Builder
			b.WriteByte('"')
			for _, c := range s {
				switch {
				case c < 0x20 || c == '"' || c == '\\' || rng.Intn(3) == 0:
					if c >= 0x10000 {
						h, l := utf16.EncodeRune(c)
						fmt.Fprintf(&b, "\\u%04X\\u%04x", h, l)
					} else {
						fmt.Fprintf(&b, "\\u%04x", c)
					}
				default:
					b.WriteRune(c)
				}
			}
			b.WriteByte('"')
			return b.String()
		}
		var parts []string
		for i, k := range ks {
			parts = append(parts, enc(k)+":"+strconv.Itoa(i))
		}
		out, err := canonicalizer.MarshalCanonical([]byte("{" + strings.Join(parts, ",") + "}"))
		idx := make([]int, len(ks))
		for i := range idx {
			idx[i] = i
		}
		sort.Slice(idx, func(a, b int) bool {
			x, y := utf16.Encode([]rune(ks[idx[a]])), utf16.Encode([]rune(ks[idx[b]]))
			for i := 0; i < len(x) && i < len(y); i++ {
				if x[i] != y[i] {
					return x[i] < y[i]
				}
			}
			return len(x) < len(y)
		})
		minimal := func(s string) string {
			var b strings.Builder
			b.WriteByte('"')
			for _, c := range s {
				switch c {
				case '"':
					b.WriteString(`\"`)
				case '\\':
					b.WriteString(`\\`)
				case '\b':
					b.WriteString(`\b`)
				case '\f':
					b.WriteString(`\f`)
				case '\n':
					b.WriteString(`\n`)
				case '\r':
					b.WriteString(`\r`)
				case '\t':
					b.WriteString(`\t`)
				default:
					if c < 0x20 {
						fmt.Fprintf(&b, "\\u%04x", c)
					} else {
						b.WriteRune(c)
					}
				}
			}
			b.WriteByte('"')
			return b.String()
		}
		var wp []string
		for _, i := range idx {
			wp = append(wp, minimal(ks[i])+":"+strconv.Itoa(i))
		}
		want := "{" + strings.Join(wp, ",") + "}"
		if err != nil || string(out) != want {
			kbad++
			if kbad < 10 {
				fmt.Printf("KEY MISMATCH got=%q err=%v want=%q\n", out, err, want)
			}
		}
	}
	fmt.Println("objects checked: 20000 mismatches:", kbad)
}
