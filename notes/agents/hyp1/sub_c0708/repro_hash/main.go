// pkg/hashing, pkg/commitment, pkg/encoder probes (C08) and MarshalCanonical(struct) probes (C07).
package main

import (
	"crypto/sha256"
	"crypto/sha512"
	"encoding/json"
	"fmt"
	"math"

	"github.com/trustbloc/sidetree-core-go/pkg/canonicalizer"
	"github.com/trustbloc/sidetree-core-go/pkg/commitment"
	"github.com/trustbloc/sidetree-core-go/pkg/encoder"
	"github.com/trustbloc/sidetree-core-go/pkg/hashing"
	"github.com/trustbloc/sidetree-core-go/pkg/jws"
)

func b64(b []byte) string { return encoder.EncodeToString(b) }

func valid(label string, model interface{}, mh string) {
	err := hashing.IsValidModelMultihash(model, mh)
	fmt.Printf("IsValidModelMultihash %-40s %q -> %v\n", label, mh, err)
}

func main() {
	model := []byte(`{"b":1,"a":"x"}`)
	canon := []byte(`{"a":"x","b":1}`)
	d256 := sha256.Sum256(canon)
	d512 := sha512.Sum512(canon)
	g256 := append([]byte{0x12, 0x20}, d256[:]...)
	g512 := append([]byte{0x13, 0x40}, d512[:]...)
	valid("genuine sha2-256", model, b64(g256))
	valid("genuine sha2-512", model, b64(g512))
	valid("non-minimal varint code 0x92 0x00", model, b64(append([]byte{0x92, 0x00, 0x20}, d256[:]...)))
	valid("non-minimal varint len 0xa0 0x00", model, b64(append([]byte{0x12, 0xa0, 0x00}, d256[:]...)))
	valid("trailing byte", model, b64(append(append([]byte{}, g256...), 0)))
	valid("len field 0x21 + extra byte", model, b64(append(append([]byte{0x12, 0x21}, d256[:]...), 0)))
	valid("truncated digest len 0x1f", model, b64(append([]byte{0x12, 0x1f}, d256[:31]...)))
	valid("sha2-512 code with sha256 digest", model, b64(append([]byte{0x13, 0x20}, d256[:]...)))
	valid("sha2-256 code with sha512 digest", model, b64(append([]byte{0x12, 0x40}, d512[:]...)))
	valid("identity code 0 with canon", model, b64(append([]byte{0x00, byte(len(canon))}, canon...)))
	valid("sha1 code 0x11", model, b64(append([]byte{0x11, 0x14}, make([]byte, 20)...)))
	valid("sha3-256 code 0x16", model, b64(append([]byte{0x16, 0x20}, d256[:]...)))
	valid("unknown code 0x7f", model, b64(append([]byte{0x7f, 0x20}, d256[:]...)))
	s := b64(g256) // 34 bytes -> 46 chars, 2 in the tail: 4 unused bits
	const alpha = "ABCDEFGHIJKLMNOPQRSTUVWXYZabcdefghijklmnopqrstuvwxyz0123456789-_"
	idx := func(c byte) int {
		for i := range alpha {
			if alpha[i] == c {
				return i
			}
		}
		return -1
	}
	alt := s[:len(s)-1] + string(alpha[idx(s[len(s)-1])|1])
	if alt == s {
		alt = s[:len(s)-1] + string(alpha[idx(s[len(s)-1])|2])
	}
	da, ea := encoder.DecodeString(alt)
	ds, _ := encoder.DecodeString(s)
	fmt.Printf("trailing bits: %q vs %q decode equal=%v err=%v\n", s, alt, string(da) == string(ds), ea)
	valid("non-canonical trailing bits", model, alt)
	valid("embedded newline", model, s[:5]+"\n"+s[5:])
	valid("trailing newline", model, s+"\n")
	valid("padding", model, s+"==")
	valid("empty", model, "")
	valid("one char", model, "A")
	c1, e1 := hashing.GetMultihashCode(alt)
	c2, e2 := hashing.GetMultihashCode(s[:5] + "\r\n" + s[5:])
	fmt.Println("GetMultihashCode(non-canonical)", c1, e1, " (with CRLF)", c2, e2)
	fmt.Println("IsComputedUsingMultihashAlgorithms(non-canonical trailing bits):", hashing.IsComputedUsingMultihashAlgorithms(alt, []uint{18}),
		" with newline:", hashing.IsComputedUsingMultihashAlgorithms(s+"\n", []uint{18}),
		" 1-byte digest:", hashing.IsComputedUsingMultihashAlgorithms(b64([]byte{0x12, 0x01, 0xaa}), []uint{18}),
		" 0-byte digest:", hashing.IsComputedUsingMultihashAlgorithms(b64([]byte{0x12, 0x00}), []uint{18}))

	// value-only
	for _, code := range []uint{18, 19, 0x16, 0} {
		var hs []string
		for _, txt := range []string{`{"b":1,"a":"x"}`, ` { "a" : "x" , "b" : 1.0 } `, `{"a":"x","b":10e-1}`, "{\"a\":\"x\",\n\"b\":100E-2}"} {
			m, err := hashing.CalculateModelMultihash([]byte(txt), code)
			hs = append(hs, fmt.Sprint(m, err))
		}
		same := true
		for _, x := range hs {
			same = same && x == hs[0]
		}
		fmt.Printf("code %d: all re-serialisations equal=%v  %s\n", code, same, hs[0])
	}
	// struct vs map vs bytes
	type T struct {
		B float64 `json:"b"`
		A string  `json:"a"`
	}
	m1, _ := hashing.CalculateModelMultihash(T{1, "x"}, 18)
	m2, _ := hashing.CalculateModelMultihash(map[string]interface{}{"a": "x", "b": 1}, 18)
	m3, _ := hashing.CalculateModelMultihash(json.RawMessage(`{"b":1,"a":"x"}`), 18)
	fmt.Println("struct/map/raw/bytes equal:", m1 == m2 && m2 == m3 && m3 == b64(g256))

	// commitment = hash of decoded reveal value
	for _, jwk := range []*jws.JWK{{Kty: "EC", Crv: "P-256", X: "x", Y: "y"}, {Kty: "OKP", Crv: "Ed25519", X: "<&> é😀"}, {Kty: "EC", Crv: "P-256", X: "x", Y: "y", Nonce: "n"}, {}, nil} {
		for _, code := range []uint{18, 19, 0x16} {
			c, e1 := commitment.GetCommitment(jwk, code)
			rv, e2 := commitment.GetRevealValue(jwk, code)
			c2, e3 := commitment.GetCommitmentFromRevealValue(rv)
			fmt.Printf("jwk=%+v code=%d equal=%v errs=[%v | %v | %v]\n", jwk, code, c == c2, e1, e2, e3)
		}
	}

	// MarshalCanonical(struct): value identity through encoding/json
	type S struct {
		H   string                 `json:"h"`
		R   json.RawMessage        `json:"r"`
		M   map[string]interface{} `json:"m"`
		F   float64                `json:"f"`
		U   uint64                 `json:"u"`
		I   int64                  `json:"i"`
		F32 float32                `json:"f32"`
	}
	v := S{H: "<>&  \x7f\u0000é😀", R: json.RawMessage(`{"z":"<>","a":[1.0,1e2, 1E21, -0]}`), M: map[string]interface{}{"￿": 1, "😀": 2, "<": 3, "a\u0000": 4},
		F: 1e21, U: math.MaxUint64, I: math.MinInt64, F32: 0.1}
	out, err := canonicalizer.MarshalCanonical(v)
	fmt.Printf("struct: %s err=%v\n", out, err)
	var back map[string]interface{}
	fmt.Println("parses back:", json.Unmarshal(out, &back), back["h"] == v.H, back["u"], back["i"], back["f32"])
	again, err := canonicalizer.MarshalCanonical(out)
	fmt.Println("fixed point:", string(again) == string(out), err)
	for _, bad := range []interface{}{math.NaN(), []float64{math.Inf(1)}, map[string]float64{"a": math.NaN()}, "top-level string", 1, nil, true, json.RawMessage(`{"a":1,"a":2}`), json.RawMessage(`{"a":1e400}`), json.RawMessage(`{"a":"\ud800"}`)} {
		out, err := canonicalizer.MarshalCanonical(bad)
		fmt.Printf("bad %T %v -> %q err=%v\n", bad, bad, out, err)
	}
}
