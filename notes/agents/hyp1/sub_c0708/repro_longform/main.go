// Long-form DID resolution probes against the real dochandler / operationparser (C08).
package main

import (
	"encoding/json"
	"fmt"
	"strings"

	"github.com/trustbloc/sidetree-core-go/pkg/api/protocol"
	"github.com/trustbloc/sidetree-core-go/pkg/batch"
	"github.com/trustbloc/sidetree-core-go/pkg/batch/cutter"
	"github.com/trustbloc/sidetree-core-go/pkg/batch/opqueue"
	"github.com/trustbloc/sidetree-core-go/pkg/canonicalizer"
	"github.com/trustbloc/sidetree-core-go/pkg/commitment"
	"github.com/trustbloc/sidetree-core-go/pkg/compression"
	"github.com/trustbloc/sidetree-core-go/pkg/dochandler"
	"github.com/trustbloc/sidetree-core-go/pkg/document"
	"github.com/trustbloc/sidetree-core-go/pkg/encoder"
	"github.com/trustbloc/sidetree-core-go/pkg/hashing"
	"github.com/trustbloc/sidetree-core-go/pkg/jws"
	"github.com/trustbloc/sidetree-core-go/pkg/mocks"
	"github.com/trustbloc/sidetree-core-go/pkg/patch"
	"github.com/trustbloc/sidetree-core-go/pkg/processor"
	"github.com/trustbloc/sidetree-core-go/pkg/versions/1_0/doccomposer"
	"github.com/trustbloc/sidetree-core-go/pkg/versions/1_0/doctransformer/didtransformer"
	"github.com/trustbloc/sidetree-core-go/pkg/versions/1_0/docvalidator/didvalidator"
	"github.com/trustbloc/sidetree-core-go/pkg/versions/1_0/model"
	"github.com/trustbloc/sidetree-core-go/pkg/versions/1_0/operationapplier"
	"github.com/trustbloc/sidetree-core-go/pkg/versions/1_0/operationparser"
	"github.com/trustbloc/sidetree-core-go/pkg/versions/1_0/txnprovider"
)

const ns = "did:sidetree"

const validDoc = `{"publicKey":[{"id":"key1","type":"JsonWebKey2020","purposes":["authentication"],"publicKeyJwk":{"kty":"EC","crv":"P-256K","x":"PUymIqdtF_qxaAqPABSw-C-owT1KYYQbsMKFM-L9fJA","y":"nM84jDHCMOTGTh_ZdHq4dBBdo4Z5PkEOW9jA8z8IsGc"}}]}`

func must(err error) {
	if err != nil {
		panic(err)
	}
}

func newHandler() *dochandler.DocumentHandler {
	pc := mocks.NewMockProtocolClient()
	for _, v := range pc.Versions {
		parser := operationparser.New(v.Protocol())
		dc := doccomposer.New()
		oa := operationapplier.New(v.Protocol(), parser, dc)
		pc.CasClient = mocks.NewMockCasClient(nil)
		cp := compression.New(compression.WithDefaultAlgorithms())
		oh := txnprovider.NewOperationHandler(pc.Protocol, pc.CasClient, cp, parser, &mocks.MetricsProvider{})
		v.OperationParserReturns(parser)
		v.OperationApplierReturns(oa)
		v.DocumentComposerReturns(dc)
		v.DocumentValidatorReturns(didvalidator.New())
		v.DocumentTransformerReturns(didtransformer.New())
		v.OperationHandlerReturns(oh)
	}
	store := mocks.NewMockOperationStore(nil)
	proc := processor.New("test", store, pc)
	ctx := &batchCtx{pc: pc, aw: mocks.NewMockAnchorWriter(nil), q: &opqueue.MemQueue{}}
	w, err := batch.New("test", ctx)
	must(err)
	return dochandler.New(ns, []string{"did:domain.com"}, pc, w, proc, &mocks.MetricsProvider{})
}

func genuine() (suffix string, sd *model.SuffixDataModel, delta *model.DeltaModel) {
	parsed, err := document.FromBytes([]byte(validDoc))
	must(err)
	p := make(patch.Patch)
	p[patch.ActionKey] = patch.AddPublicKeys
	p[patch.PublicKeys] = parsed.PublicKeys()
	uc, err := commitment.GetCommitment(&jws.JWK{Kty: "EC", Crv: "P-256", X: "ux", Y: "uy"}, 18)
	must(err)
	delta = &model.DeltaModel{Patches: []patch.Patch{p}, UpdateCommitment: uc}
	rc, err := commitment.GetCommitment(&jws.JWK{Kty: "EC", Crv: "P-256", X: "rx", Y: "ry"}, 18)
	must(err)
	dh, err := hashing.CalculateModelMultihash(delta, 18)
	must(err)
	sd = &model.SuffixDataModel{DeltaHash: dh, RecoveryCommitment: rc}
	suffix, err = model.GetUniqueSuffix(sd, []uint{18})
	must(err)
	return
}

type batchCtx struct {
	pc *mocks.MockProtocolClient
	aw *mocks.MockAnchorWriter
	q  cutter.OperationQueue
}

func (m *batchCtx) Protocol() protocol.Client             { return m.pc }
func (m *batchCtx) Anchor() batch.AnchorWriter            { return m.aw }
func (m *batchCtx) OperationQueue() cutter.OperationQueue { return m.q }

var h = newHandler()

func try(label, did string) {
	var res *document.ResolutionResult
	var err error
	func() {
		defer func() {
			if r := recover(); r != nil {
				err = fmt.Errorf("PANIC: %v", r)
			}
		}()
		res, err = h.ResolveDocument(did)
	}()
	if err != nil {
		fmt.Printf("%-44s REJECTED: %v\n", label, err)
		return
	}
	id := res.Document["id"]
	ids := fmt.Sprint(id)
	if len(ids) > 90 {
		ids = ids[:60] + "..." + ids[len(ids)-20:]
	}
	fmt.Printf("%-44s RESOLVED id=%s\n", label, ids)
}

func main() {
	suffix, sd, delta := genuine()
	canon, err := canonicalizer.MarshalCanonical(model.CreateRequest{SuffixData: sd, Delta: delta})
	must(err)
	seg := encoder.EncodeToString(canon)
	fmt.Println("suffix:", suffix)
	fmt.Println("canonical initial state:", string(canon))
	did := ns + ":" + suffix
	try("genuine", did+":"+seg)
	try("short form (unanchored)", did)

	var g map[string]interface{}
	must(json.Unmarshal(canon, &g))
	segOf := func(f func(m map[string]interface{})) string {
		var m map[string]interface{}
		must(json.Unmarshal(canon, &m))
		f(m)
		b, err := canonicalizer.MarshalCanonical(m)
		must(err)
		return encoder.EncodeToString(b)
	}
	// extra member "type" at top level of the initial state (canonically encoded)
	for _, t := range []string{"create", "update", "deactivate", "anything at all", strings.Repeat("x", 500)} {
		s := segOf(func(m map[string]interface{}) { m["type"] = t })
		lbl := t
		if len(lbl) > 20 {
			lbl = lbl[:10] + "..."
		}
		try("top-level member type="+lbl, did+":"+s)
	}
	try("top-level member extra", did+":"+segOf(func(m map[string]interface{}) { m["extra"] = "x" }))
	try("top-level member Type (case)", did+":"+segOf(func(m map[string]interface{}) { m["Type"] = "x" }))
	try("top-level type=null", did+":"+segOf(func(m map[string]interface{}) { m["type"] = nil }))
	try("top-level type=\"\"", did+":"+segOf(func(m map[string]interface{}) { m["type"] = "" }))
	try("top-level type=1", did+":"+segOf(func(m map[string]interface{}) { m["type"] = 1 }))
	// suffix data extra members: change suffix (so must be rejected with same suffix)
	try("suffixData.type=x (same suffix)", did+":"+segOf(func(m map[string]interface{}) { m["suffixData"].(map[string]interface{})["type"] = "x" }))
	try("suffixData.anchorOrigin (same suffix)", did+":"+segOf(func(m map[string]interface{}) { m["suffixData"].(map[string]interface{})["anchorOrigin"] = "o" }))
	try("suffixData.extra", did+":"+segOf(func(m map[string]interface{}) { m["suffixData"].(map[string]interface{})["extra"] = "o" }))
	try("delta.extra", did+":"+segOf(func(m map[string]interface{}) { m["delta"].(map[string]interface{})["extra"] = "o" }))
	try("delta.patches[0].extra", did+":"+segOf(func(m map[string]interface{}) {
		m["delta"].(map[string]interface{})["patches"].([]interface{})[0].(map[string]interface{})["extra"] = "o"
	}))
	// non canonical encodings of the same value
	raw := func(s string) string { return encoder.EncodeToString([]byte(s)) }
	sj, _ := canonicalizer.MarshalCanonical(sd)
	dj, _ := canonicalizer.MarshalCanonical(delta)
	try("member order", did+":"+raw(`{"suffixData":`+string(sj)+`,"delta":`+string(dj)+`}`))
	try("duplicate member", did+":"+raw(`{"delta":`+string(dj)+`,"delta":`+string(dj)+`,"suffixData":`+string(sj)+`}`))
	try("duplicate member (first other)", did+":"+raw(`{"delta":{"updateCommitment":"x"},"delta":`+string(dj)+`,"suffixData":`+string(sj)+`}`))
	try("trailing space", did+":"+raw(string(canon)+" "))
	try("leading space", did+":"+raw(" "+string(canon)))
	try("case-variant member name", did+":"+raw(`{"Delta":`+string(dj)+`,"suffixData":`+string(sj)+`}`))
	try("escaped member name", did+":"+raw(`{"\u0064elta":`+string(dj)+`,"suffixData":`+string(sj)+`}`))
	try("escaped solidus in value", did+":"+raw(strings.Replace(string(canon), "JsonWebKey2020", `JsonWebKey\u0032020`, 1)))
	// make a state whose base64 has a partial tail by adding the accepted type member with varying length
	for _, t := range []string{"c", "cr", "cre"} {
		b, _ := canonicalizer.MarshalCanonical(model.CreateRequest{Operation: "create", SuffixData: sd, Delta: delta})
		b = []byte(strings.Replace(string(b), `"type":"create"`, `"type":"`+t+`"`, 1))
		sg := encoder.EncodeToString(b)
		const alpha = "ABCDEFGHIJKLMNOPQRSTUVWXYZabcdefghijklmnopqrstuvwxyz0123456789-_"
		if len(sg)%4 != 0 {
			v := strings.IndexByte(alpha, sg[len(sg)-1])
			try(fmt.Sprintf("type=%s canonical b64 (len%%4=%d)", t, len(sg)%4), did+":"+sg)
			try(fmt.Sprintf("type=%s NON-canonical trailing bits", t), did+":"+sg[:len(sg)-1]+string(alpha[v|1]))
		}
	}
	// Parse(create request) on re-serialisations: suffix must not move
	{
		pr := operationparser.New(mocks.NewMockProtocolClient().Protocol)
		req, _ := canonicalizer.MarshalCanonical(model.CreateRequest{Operation: "create", SuffixData: sd, Delta: delta})
		texts := map[string]string{
			"canonical": string(req),
			"reordered": `{"type":"create","suffixData":` + string(sj) + `,"delta":` + string(dj) + `}`,
			"spaces":    "{ \"type\" :\t\"create\" ,\n\"suffixData\":" + string(sj) + " , \"delta\" : " + string(dj) + " }\n",
			"escaped names": `{"\u0074ype":"cre\u0061te","\u0073uffixData":` + strings.Replace(string(sj), "deltaHash", `delta\u0048ash`, 1) + `,"delta":` + strings.Replace(string(dj), "JsonWebKey2020", `JsonWebKey\u0032020`, 1) + `}`,
		}
		for k, t := range texts {
			op, err := pr.Parse(ns, []byte(t))
			if err != nil {
				fmt.Printf("Parse %-14s error %v\n", k, err)
				continue
			}
			fmt.Printf("Parse %-14s suffix=%s same=%v\n", k, op.UniqueSuffix, op.UniqueSuffix == suffix)
		}
	}
	// base64 level
	if len(seg)%4 != 0 {
		const alpha = "ABCDEFGHIJKLMNOPQRSTUVWXYZabcdefghijklmnopqrstuvwxyz0123456789-_"
		v := strings.IndexByte(alpha, seg[len(seg)-1])
		try("b64 non-canonical trailing bits", did+":"+seg[:len(seg)-1]+string(alpha[v|1]))
	} else {
		fmt.Println("(segment length multiple of 4: no trailing bits)")
	}
	try("b64 embedded newline", did+":"+seg[:10]+"\n"+seg[10:])
	try("b64 embedded CR", did+":"+seg[:10]+"\r"+seg[10:])
	try("b64 trailing newline", did+":"+seg+"\n")
	try("b64 padding", did+":"+seg+"=")
	try("b64 std alphabet", did+":"+strings.NewReplacer("-", "+", "_", "/").Replace(seg))
	// suffix level
	try("suffix trailing newline", did+"\n:"+seg)
	{
		const alpha = "ABCDEFGHIJKLMNOPQRSTUVWXYZabcdefghijklmnopqrstuvwxyz0123456789-_"
		v := strings.IndexByte(alpha, suffix[len(suffix)-1])
		alt := suffix[:len(suffix)-1] + string(alpha[v^1])
		fmt.Println("suffix len", len(suffix), "len%4", len(suffix)%4)
		try("suffix non-canonical trailing bits", ns+":"+alt+":"+seg)
	}
	try("empty suffix", ns+"::"+seg)
	try("hint segment", ns+":hint:"+suffix+":"+seg)
	try("alias namespace", "did:domain.com:"+suffix+":"+seg)
	try("namespace repeated", ns+":"+ns+":"+suffix+":"+seg)
	try("namespace only + seg", ns+":"+seg)
	try("trailing colon", did+":"+seg+":")
	try("seg twice", did+":"+seg+":"+seg)
	try("suffix == seg position swapped", ns+":"+seg+":"+suffix)
	try("empty segment", did+":")
	// sha2-512 suffix while protocol lists 18 only
	s512, _ := model.GetUniqueSuffix(sd, []uint{19})
	try("suffix computed with sha2-512", ns+":"+s512+":"+seg)
}
