// C08: a long-form DID whose initial state carries an extra top-level member "type" (any non-empty string)
// resolves, although the property says any alteration of the embedded initial state is rejected.
package main

import (
	"encoding/json"
	"fmt"
	"strings"

	"github.com/trustbloc/sidetree-core-go/pkg/api/protocol"
	"github.com/trustbloc/sidetree-core-go/pkg/batch"
	"github.com/trustbloc/sidetree-core-go/pkg/batch/cutter"
	"github.com/trustbloc/sidetree-core-go/pkg/batch/opqueue"
	"github.com/trustbloc/sidetree-core-go/pkg/canonicalizer"
	"github.com/trustbloc/sidetree-core-go/pkg/commitment"
	"github.com/trustbloc/sidetree-core-go/pkg/compression"
	"github.com/trustbloc/sidetree-core-go/pkg/dochandler"
	"github.com/trustbloc/sidetree-core-go/pkg/document"
	"github.com/trustbloc/sidetree-core-go/pkg/encoder"
	"github.com/trustbloc/sidetree-core-go/pkg/hashing"
	"github.com/trustbloc/sidetree-core-go/pkg/jws"
	"github.com/trustbloc/sidetree-core-go/pkg/mocks"
	"github.com/trustbloc/sidetree-core-go/pkg/patch"
	"github.com/trustbloc/sidetree-core-go/pkg/processor"
	"github.com/trustbloc/sidetree-core-go/pkg/versions/1_0/doccomposer"
	"github.com/trustbloc/sidetree-core-go/pkg/versions/1_0/doctransformer/didtransformer"
	"github.com/trustbloc/sidetree-core-go/pkg/versions/1_0/docvalidator/didvalidator"
	"github.com/trustbloc/sidetree-core-go/pkg/versions/1_0/model"
	"github.com/trustbloc/sidetree-core-go/pkg/versions/1_0/operationapplier"
	"github.com/trustbloc/sidetree-core-go/pkg/versions/1_0/operationparser"
	"github.com/trustbloc/sidetree-core-go/pkg/versions/1_0/txnprovider"
)

const ns = "did:sidetree"

const validDoc = `{"publicKey":[{"id":"key1","type":"JsonWebKey2020","purposes":["authentication"],"publicKeyJwk":{"kty":"EC","crv":"P-256K","x":"PUymIqdtF_qxaAqPABSw-C-owT1KYYQbsMKFM-L9fJA","y":"nM84jDHCMOTGTh_ZdHq4dBBdo4Z5PkEOW9jA8z8IsGc"}}]}`

func must(err error) {
	if err != nil {
		panic(err)
	}
}

func newHandler() *dochandler.DocumentHandler {
	pc := mocks.NewMockProtocolClient()
	for _, v := range pc.Versions {
		parser := operationparser.New(v.Protocol())
		dc := doccomposer.New()
		oa := operationapplier.New(v.Protocol(), parser, dc)
		pc.CasClient = mocks.NewMockCasClient(nil)
		cp := compression.New(compression.WithDefaultAlgorithms())
		oh := txnprovider.NewOperationHandler(pc.Protocol, pc.CasClient, cp, parser, &mocks.MetricsProvider{})
		v.OperationParserReturns(parser)
		v.OperationApplierReturns(oa)
		v.DocumentComposerReturns(dc)
		v.DocumentValidatorReturns(didvalidator.New())
		v.DocumentTransformerReturns(didtransformer.New())
		v.OperationHandlerReturns(oh)
	}
	store := mocks.NewMockOperationStore(nil)
	proc := processor.New("test", store, pc)
	ctx := &batchCtx{pc: pc, aw: mocks.NewMockAnchorWriter(nil), q: &opqueue.MemQueue{}}
	w, err := batch.New("test", ctx)
	must(err)
	return dochandler.New(ns, []string{"did:domain.com"}, pc, w, proc, &mocks.MetricsProvider{})
}

func genuine() (suffix string, sd *model.SuffixDataModel, delta *model.DeltaModel) {
	parsed, err := document.FromBytes([]byte(validDoc))
	must(err)
	p := make(patch.Patch)
	p[patch.ActionKey] = patch.AddPublicKeys
	p[patch.PublicKeys] = parsed.PublicKeys()
	uc, err := commitment.GetCommitment(&jws.JWK{Kty: "EC", Crv: "P-256", X: "ux", Y: "uy"}, 18)
	must(err)
	delta = &model.DeltaModel{Patches: []patch.Patch{p}, UpdateCommitment: uc}
	rc, err := commitment.GetCommitment(&jws.JWK{Kty: "EC", Crv: "P-256", X: "rx", Y: "ry"}, 18)
	must(err)
	dh, err := hashing.CalculateModelMultihash(delta, 18)
	must(err)
	sd = &model.SuffixDataModel{DeltaHash: dh, RecoveryCommitment: rc}
	suffix, err = model.GetUniqueSuffix(sd, []uint{18})
	must(err)
	return
}

type batchCtx struct {
	pc *mocks.MockProtocolClient
	aw *mocks.MockAnchorWriter
	q  cutter.OperationQueue
}

func (m *batchCtx) Protocol() protocol.Client             { return m.pc }
func (m *batchCtx) Anchor() batch.AnchorWriter            { return m.aw }
func (m *batchCtx) OperationQueue() cutter.OperationQueue { return m.q }

var h = newHandler()

func try(label, did string) {
	var res *document.ResolutionResult
	var err error
	func() {
		defer func() {
			if r := recover(); r != nil {
				err = fmt.Errorf("PANIC: %v", r)
			}
		}()
		res, err = h.ResolveDocument(did)
	}()
	if err != nil {
		fmt.Printf("%-44s REJECTED: %v\n", label, err)
		return
	}
	id := res.Document["id"]
	ids := fmt.Sprint(id)
	if len(ids) > 90 {
		ids = ids[:60] + "..." + ids[len(ids)-20:]
	}
	fmt.Printf("%-44s RESOLVED id=%s\n", label, ids)
}

func main() {
	suffix, sd, delta := genuine()
	did := ns + ":" + suffix
	canon, err := canonicalizer.MarshalCanonical(model.CreateRequest{SuffixData: sd, Delta: delta})
	must(err)
	fmt.Println("genuine initial state:", string(canon))
	try("genuine {delta,suffixData}", did+":"+encoder.EncodeToString(canon))
	for _, t := range []string{"create", "update", "deactivate", "attacker chosen text " + strings.Repeat("x", 40)} {
		var m map[string]interface{}
		must(json.Unmarshal(canon, &m))
		m["type"] = t // single-member alteration of the initial state
		b, err := canonicalizer.MarshalCanonical(m)
		must(err)
		try("altered: + \"type\":\""+t[:6]+"...\"", did+":"+encoder.EncodeToString(b))
	}
	// control: any other extra member is rejected
	var m map[string]interface{}
	must(json.Unmarshal(canon, &m))
	m["extra"] = "x"
	b, _ := canonicalizer.MarshalCanonical(m)
	try("control: + \"extra\":\"x\"", did+":"+encoder.EncodeToString(b))
	// parser level
	pr := operationparser.New(mocks.NewMockProtocolClient().Protocol)
	m = nil
	must(json.Unmarshal(canon, &m))
	m["type"] = "update"
	b, _ = canonicalizer.MarshalCanonical(m)
	short, req, err := pr.ParseDID(ns, did+":"+encoder.EncodeToString(b))
	fmt.Printf("ParseDID(type=update): did=%s err=%v\n  request handed to Parse: %.60s... (type overwritten)\n", short, err, req)
}
