module probe

go 1.19

require github.com/trustbloc/sidetree-core-go v0.0.0

replace github.com/trustbloc/sidetree-core-go => /repo
