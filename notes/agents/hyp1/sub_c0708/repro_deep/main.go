// Deeply nested input to canonicalizer.MarshalCanonical([]byte): goroutine stack exhaustion is a fatal,
// unrecoverable error in Go ("goroutine stack exceeds 1000000000-byte limit").
package main

import (
	"bytes"
	"fmt"
	"os"
	"strconv"
	"time"

	"github.com/trustbloc/sidetree-core-go/pkg/canonicalizer"
)

func main() {
	n, _ := strconv.Atoi(os.Args[1])
	mode := os.Args[2]
	var in []byte
	switch mode {
	case "open": // unterminated structure: must be "rejected"
		in = bytes.Repeat([]byte("["), n)
	case "closed": // well-formed array: must be canonicalised (is its own canonical form)
		in = append(bytes.Repeat([]byte("["), n), bytes.Repeat([]byte("]"), n)...)
	case "obj":
		in = append(bytes.Repeat([]byte(`{"a":`), n), '1')
		in = append(in, bytes.Repeat([]byte("}"), n)...)
	}
	defer func() {
		if r := recover(); r != nil {
			fmt.Println("recovered:", r)
		}
	}()
	t := time.Now()
	out, err := canonicalizer.MarshalCanonical(in)
	fmt.Printf("n=%d mode=%s len(in)=%d len(out)=%d err=%v equal=%v in %v\n", n, mode, len(in), len(out), err, bytes.Equal(in, out), time.Since(t))
}
