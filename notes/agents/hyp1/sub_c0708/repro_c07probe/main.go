package main

import (
	"fmt"

	"github.com/trustbloc/sidetree-core-go/pkg/canonicalizer"
)

func main() {
	for _, in := range []string{
		`{"a":[1,{"b":"é\n\ud800"}]}`, `{"a":[1,{"é😀\ud800":1}]}`, `{"a":[1,{"k":"x\q"}]}`, "{\"a\":[1,{\"k\":\"é\x01\"}]}",
		`{"a":[1,{"k":"\u12G4"}]}`, `{"a":[1,{"k":"abc`, `{"a":[1,{"k":"\ud83dA"}]}`, `{"a":[1,{"k":"😀\ude00"}]}`,
		`{"a":{"x":1,"x":1},"b":"ok"}`, `[{"😀":1,"😀":2}]`, `{"a":[1,{"k":"v"}]} ,`, `{"a":[1,{"k":"v"}]}{}`, `[[],[]`, `{"a":{}`, `[1,2]]`,
	} {
		out, err := canonicalizer.MarshalCanonical([]byte(in))
		fmt.Printf("%-45q rejected=%v (%v) out=%q\n", in, err != nil, err, out)
	}
}
