// Package out collects the cases of one harness run and writes case files, descriptors and stats.
package out

import (
	"crypto/sha256"
	"encoding/hex"
	"encoding/json"
	"os"
	"path/filepath"

	"hyp/emit"
)

// Group is one family of cases checked by one Gallina function.
type Group struct {
	Name    string   // file prefix, e.g. cases_C05_resolve
	Imports []string // SV modules
	Type    string
	Check   string
	cases   []string
	descs   []interface{}
}

// Run is the output of a harness run.
type Run struct {
	Dir        string
	Groups     []*Group
	Hist       map[string]map[string]int
	distinct   map[string]bool
	Evals      int
	Samples    []interface{}
	Direct     []Direct // violations found by oracles evaluated on the implementation alone
	Extra      map[string]interface{}
	MaxSamples int
}

// Direct is a failure of a relational oracle on the implementation itself.
type Direct struct {
	Oracle string      `json:"oracle"`
	What   string      `json:"what"`
	Case   interface{} `json:"case"`
}

// New creates a run.
func New(dir string) *Run {
	return &Run{Direct: []Direct{}, Dir: dir, Hist: map[string]map[string]int{}, distinct: map[string]bool{}, Extra: map[string]interface{}{}, MaxSamples: 3}
}

// Group adds a group.
func (r *Run) Group(name string, imports []string, typ, check string) *Group {
	g := &Group{Name: name, Imports: imports, Type: typ, Check: check}
	r.Groups = append(r.Groups, g)
	return g
}

// Count increments a histogram bucket.
func (r *Run) Count(hist, bucket string) {
	if r.Hist[hist] == nil {
		r.Hist[hist] = map[string]int{}
	}
	r.Hist[hist][bucket]++
}

// Add adds a case. key identifies the case for distinctness; nontrivial says whether it counts.
func (r *Run) Add(g *Group, gallina string, desc interface{}, key string, nontrivial bool) {
	g.cases = append(g.cases, gallina)
	g.descs = append(g.descs, desc)
	r.Evals++
	if nontrivial {
		h := sha256.Sum256([]byte(g.Name + "|" + key))
		r.distinct[hex.EncodeToString(h[:8])] = true
	}
	if len(r.Samples) < r.MaxSamples {
		r.Samples = append(r.Samples, desc)
	}
}

// Finish writes everything.
func (r *Run) Finish(perShard int) error {
	type fileInfo struct {
		Group string   `json:"group"`
		Files []string `json:"files"`
		Count int      `json:"count"`
		Shard int      `json:"per_shard"`
	}
	var files []fileInfo
	for _, g := range r.Groups {
		f := emit.File{Dir: r.Dir, Name: g.Name, Imports: g.Imports, Type: g.Type, Check: g.Check, Cases: g.cases}
		names, err := f.Write(perShard)
		if err != nil {
			return err
		}
		files = append(files, fileInfo{Group: g.Name, Files: names, Count: len(g.cases), Shard: perShard})
		df, err := os.Create(filepath.Join(r.Dir, g.Name+".descs.jsonl"))
		if err != nil {
			return err
		}
		enc := json.NewEncoder(df)
		for _, d := range g.descs {
			if err := enc.Encode(d); err != nil {
				return err
			}
		}
		df.Close()
	}
	stats := map[string]interface{}{
		"evaluations":         r.Evals,
		"distinct_nontrivial": len(r.distinct),
		"histograms":          r.Hist,
		"samples":             r.Samples,
		"files":               files,
		"direct_violations":   r.Direct,
		"extra":               r.Extra,
	}
	b, err := json.MarshalIndent(stats, "", " ")
	if err != nil {
		return err
	}
	return os.WriteFile(filepath.Join(r.Dir, "stats.json"), b, 0o644)
}
