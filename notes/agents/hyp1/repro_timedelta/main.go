// C05 / hypothesis `small (MaxOperationTimeDelta p)` of C05_code_window_is_model and C05_intake_same_window.
// Operation signs anchorFrom = 1000 only (no anchorUntil) and is anchored at 1500.
// Property: in window iff anchorFrom <= t <= anchorFrom + MaxOperationTimeDelta, "for all settings of the time-delta".
package main

import (
	"fmt"
	"math"
	"math/rand"

	"github.com/trustbloc/sidetree-core-go/pkg/api/operation"
	"github.com/trustbloc/sidetree-core-go/pkg/processor"
	"github.com/trustbloc/sidetree-core-go/pkg/versions/1_0/operationparser"

	"hyp/world"
)

type store struct{ ops []*operation.AnchoredOperation }

func (s *store) Get(string) ([]*operation.AnchoredOperation, error) {
	out := make([]*operation.AnchoredOperation, len(s.ops))
	for i, o := range s.ops {
		c := *o
		out[i] = &c
	}
	return out, nil
}

type recorder struct{ from, until int64 }

func (r *recorder) Validate(from, until int64) error { r.from, r.until = from, until; return nil }

func main() {
	kp := world.NewKeyPool(10)
	tb := world.NewTable()
	d := world.NewDID(kp, tb, rand.New(rand.NewSource(1)), world.SHA256)
	spec := d.ValidUpdate(d.Keys[5], "U")
	spec.From, spec.Until = 1000, 0
	u := world.Build(spec)

	for _, delta := range []uint64{7200, 1 << 62, math.MaxInt64 - 1000, math.MaxInt64 - 999, 1 << 63, math.MaxUint64} {
		p := world.DefaultProtocol()
		p.MaxOperationTimeDelta = delta
		rec := &recorder{}
		pc := &world.Client{Versions: []*world.Version{world.NewVersion("1.0", p, world.VersionOpts{
			ParserOpts: []operationparser.Option{operationparser.WithAnchorTimeValidator(rec)}})}}
		mk := func(op *world.Op, t uint64, ref string) *operation.AnchoredOperation {
			return &operation.AnchoredOperation{Type: op.Spec.Type, OperationRequest: op.Request, UniqueSuffix: d.Suffix,
				TransactionTime: t, CanonicalReference: ref}
		}
		st := &store{ops: []*operation.AnchoredOperation{mk(d.Create, 900, "a"), mk(u, 1500, "b")}}
		rm, err := processor.New("x", st, pc).Resolve(d.Suffix)
		if err != nil {
			fmt.Println("error", err)
			continue
		}
		// intake: which window reaches the server-time validator
		_, perr := pc.Versions[0].Parser.Parse("did:sidetree", u.Request)
		fmt.Printf("MaxOperationTimeDelta=%d: anchored at 1500, signed anchorFrom=1000 -> doc key ids=%v (update content id %d applied: %v); intake validator got (from=%d, until=%d) err=%v\n",
			delta, world.DocIDs(rm.Doc), u.Spec.DeltaID, len(world.DocIDs(rm.Doc)) == 2, rec.from, rec.until, perr)
	}
}
