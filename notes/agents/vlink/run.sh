#!/bin/bash
# Differential run of the validator model inside the parser model (SV.Parser.ViewValidated / SV.Corr.ViewValidated)
# against the real decoders, patchvalidator.Validate, Parser.ValidateDelta and Parser.Parse / ParseOperation.
# usage: run.sh <outdir> <seed> quick|thorough
set -e
out=${1:-/tmp/gen_vlink_cases}; seed=${2:-1}; tier=${3:-quick}
mkdir -p "$out"
( cd /verif/harness && export GOFLAGS=-mod=mod GOPROXY=off GOSUMDB=off GOTOOLCHAIN=local &&
  go build -tags verif -modfile ../.build/go.mod -o /tmp/gen_vlink ./cmd/gen_vlink )
/tmp/gen_vlink -out "$out" -seed "$seed" -tier "$tier" | tail -1 > "$out/STATS.txt"
cd "$out"
ls VL_*.v | xargs -P 16 -I{} sh -c 'timeout 1800 coqc -Q /verif/coq/theories SV {} > {}.out 2>&1'
bad=0
for f in VL_*.v.out; do
  if ! tr -d '\n' < "$f" | grep -q "M = \[\] *: list nat"; then echo "== $f"; head -c 600 "$f"; echo; bad=$((bad+1)); fi
done
echo "files with mismatches or errors: $bad of $(ls VL_*.v | wc -l)"
# a mismatch is diagnosed with:  Eval vm_compute in vl_diffs_from 0 cases.   (component codes: Corr/ViewValidated.v vl_diff)
