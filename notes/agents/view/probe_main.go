package main

import (
	"encoding/json"
	"fmt"

	josejson "github.com/square/go-jose/v3/json"
	"github.com/trustbloc/sidetree-core-go/pkg/canonicalizer"
	"github.com/trustbloc/sidetree-core-go/pkg/versions/1_0/model"
)

func try(s string) {
	var r model.UpdateRequest
	err := json.Unmarshal([]byte(s), &r)
	var c []byte
	if r.Delta != nil {
		c, _ = canonicalizer.MarshalCanonical(r.Delta)
	}
	fmt.Printf("%s\n   err=%v did=%q delta=%s\n", s, err, r.DidSuffix, c)
}
func hdr(s string) {
	var m map[string]interface{}
	err := josejson.Unmarshal([]byte(s), &m)
	b, _ := josejson.Marshal(m)
	fmt.Printf("HDR %s\n   err=%v nil=%v marshal=%s\n", s, err, m == nil, b)
}
func main() {
	try(`{"delta":{"patches":[{"a":1},{"b":2}]},"delta":{"patches":[{"c":3}]},"delta":{"patches":[{"d":4},{"e":5}]}}`)
	try(`{"delta":{"patches":[{"a":1},{"b":2}]},"delta":{"patches":[]},"delta":{"patches":[{"d":4},{"e":5}]}}`)
	try(`{"delta":{"patches":[{"a":1},{"b":2}]},"delta":{"patches":null},"delta":{"patches":[{"d":4},{"e":5}]}}`)
	try(`{"delta":{"patches":[{"a":1}],"updateCommitment":"x"},"delta":null,"delta":{"patches":[{"d":4}]}}`)
	try(`{"delta":{"patches":[{"a":1}],"updateCommitment":"x"},"DELTA":{"patches":[null,{"d":4}]}}`)
	try(`{"delta":{"patches":[{"a":1e400}]}}`)
	try(`{"x":1e400,"didsuffix":"abc","didSuffix":null}`)
	try(`{"didſuffix":"abc"}`)
	try(`{"didSuffix":"a\ud800b\udc00𐀀c` + "\xff\xc0\x80" + `"}`)
	try(`null`)
	try(`[]`)
	try(` {"didSuffix":"x"} `)
	try("\xef\xbb\xbf{}")
	try(`{"delta":{"patches":[{"a":1}]},"delta":{"patches":[{"a":{"x":1}}]},"delta":{"patches":[{"a":null,"b":[1,2]}]}}`)
	try(`{"delta":{"patches":[{"a":1},{"b":2}]},"delta":{"patches":[{"c":3}]},"delta":{"patches":[null,{"e":5}]}}`)
	try(`{"delta":{"patches":[{"a":1},{"b":2}]},"delta":{"patches":[{"c":3}]},"delta":{"patches":[5,{"e":5}]}}`)
	hdr(`{"alg":"x","n":[1e21,1e20,1e-5,0.0001,123456789,1.5,-0,1e-7,100,1234567.5, 12345678.5, 0.000012345, 5e-324]}`)
	hdr(`null`)
	hdr(`{"a":1,"a":2}`)
	hdr(`{"a":{"b":1,"b":2}}`)
	hdr(`{"a":"<>& \u0008\u007f\n"}`)
	hdr(` {"a":1} x`)
	hdr(`{"a":1e400}`)
	hdr(`[]`)
	hdr(`"x"`)
}
