package scratch

import (
	"encoding/json"
	"testing"

	"github.com/trustbloc/sidetree-core-go/pkg/patch"
	"github.com/trustbloc/sidetree-core-go/pkg/versions/1_0/client"

	"hyp2/lib"
)

const keyDoc = `{"publicKey":[{"id":"k1","type":"JsonWebKey2020","purposes":["authentication"],"publicKeyJwk":{"kty":"EC","crv":"P-256","x":"PUymIqdtF_qxaAqPABSw-C-owT1KYYQbsMKFM-L9fJA","y":"nM84jDHCMOTGTh_ZdHq4dBBdo4Z5PkEOW9jA8z8IsGc"}}]}`

// every combination of hash algorithm for (create, update) under both orders of the protocol's algorithm list
func TestSecondAlgorithm(t *testing.T) {
	for _, algs := range [][]uint{{18, 19}, {19, 18}} {
		for _, cc := range []uint{18, 19} {
			for _, uc := range []uint{18, 19} {
				p := lib.DefaultProtocol()
				p.MultihashAlgorithms = algs
				n := lib.NewNode(p, false)
				rec, upd, upd2 := lib.NewKey(), lib.NewKey(), lib.NewKey()
				patches, _ := patch.PatchesFromDocument(keyDoc)
				req, err := client.NewCreateRequest(&client.CreateRequestInfo{Patches: patches, RecoveryCommitment: rec.CommitmentWith(cc), UpdateCommitment: upd.CommitmentWith(cc), MultihashCode: cc})
				lib.Must(err)
				res, err := n.Handler.ProcessOperation(req, 0)
				if err != nil {
					t.Errorf("algs %v create with %d: %v", algs, cc, err)
					continue
				}
				sfx := res.Document.ID()[len(lib.NS)+1:]
				n.Writer.VerifStep(true)
				if e := n.Observe(); len(e) > 0 {
					t.Errorf("algs %v create %d observe: %v", algs, cc, e)
					continue
				}
				ap, _ := patch.NewAddServiceEndpointsPatch(`[{"id":"svc1","type":"T","serviceEndpoint":"https://a.example"}]`)
				// the reveal value must hash (with ITS code) to the commitment stored: commitment code cc => reveal code cc
				ureq, err := client.NewUpdateRequest(&client.UpdateRequestInfo{DidSuffix: sfx, Patches: []patch.Patch{ap}, UpdateCommitment: upd2.CommitmentWith(uc),
					UpdateKey: upd.JWK, MultihashCode: uc, Signer: upd.Signer(), RevealValue: upd.RevealWith(cc)})
				if err != nil {
					t.Errorf("algs %v create %d update %d build: %v", algs, cc, uc, err)
					continue
				}
				_, err = n.Handler.ProcessOperation(ureq, 0)
				if err != nil {
					t.Errorf("algs %v create %d update %d intake: %v", algs, cc, uc, err)
					continue
				}
				n.Writer.VerifStep(true)
				if e := n.Observe(); len(e) > 0 {
					t.Errorf("algs %v create %d update %d observe: %v", algs, cc, uc, e)
					continue
				}
				rr, err := n.Handler.ResolveDocument(lib.NS + ":" + sfx)
				if err != nil {
					t.Errorf("resolve: %v", err)
					continue
				}
				b, _ := json.Marshal(rr.Document["service"])
				m, _ := json.Marshal(rr.DocumentMetadata["method"])
				ok := string(b) != "null"
				t.Logf("algs %v create-code %d update-code %d: suffix len %d service applied=%v method=%s", algs, cc, uc, len(sfx), ok, m)
				if !ok {
					t.Errorf("update built by the client from valid inputs did not take effect")
				}
			}
		}
	}
}
