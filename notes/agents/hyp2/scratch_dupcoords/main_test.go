package scratch

// hypothesis key_inj / NoDup coord: every transaction is delivered to the transaction processor twice (at-least-once delivery)
import (
	"encoding/json"
	"testing"

	"github.com/trustbloc/sidetree-core-go/pkg/patch"
	"github.com/trustbloc/sidetree-core-go/pkg/versions/1_0/client"

	"hyp2/lib"
)

const keyDoc = `{"publicKey":[{"id":"k1","type":"JsonWebKey2020","purposes":["authentication"],"publicKeyJwk":{"kty":"EC","crv":"P-256","x":"PUymIqdtF_qxaAqPABSw-C-owT1KYYQbsMKFM-L9fJA","y":"nM84jDHCMOTGTh_ZdHq4dBBdo4Z5PkEOW9jA8z8IsGc"}}]}`

func svc(id string) patch.Patch {
	p, err := patch.NewAddServiceEndpointsPatch(`[{"id":"` + id + `","type":"T","serviceEndpoint":"https://a.example"}]`)
	lib.Must(err)
	return p
}

func TestDup(t *testing.T) {
	n := lib.NewNode(lib.DefaultProtocol(), false)
	twice := func() {
		n.Writer.VerifStep(true)
		tx := n.Ledger.Txns[len(n.Ledger.Txns)-1]
		for i := 0; i < 2; i++ {
			_, err := n.V.TxnProc.Process(tx)
			lib.Must(err)
		}
		n.Ledger.Time += 10
	}
	rec, upd, upd2, rec2, upd3, upd4 := lib.NewKey(), lib.NewKey(), lib.NewKey(), lib.NewKey(), lib.NewKey(), lib.NewKey()
	patches, _ := patch.PatchesFromDocument(keyDoc)
	req, err := client.NewCreateRequest(&client.CreateRequestInfo{Patches: patches, RecoveryCommitment: rec.Commitment(), UpdateCommitment: upd.Commitment(), MultihashCode: lib.SHA256})
	lib.Must(err)
	res, err := n.Handler.ProcessOperation(req, 0)
	lib.Must(err)
	sfx := res.Document.ID()[len(lib.NS)+1:]
	twice()
	u1, err := client.NewUpdateRequest(&client.UpdateRequestInfo{DidSuffix: sfx, Patches: []patch.Patch{svc("s1")}, UpdateCommitment: upd2.Commitment(), UpdateKey: upd.JWK, MultihashCode: lib.SHA256, Signer: upd.Signer(), RevealValue: upd.Reveal()})
	lib.Must(err)
	_, err = n.Handler.ProcessOperation(u1, 0)
	lib.Must(err)
	twice()
	r1, err := client.NewRecoverRequest(&client.RecoverRequestInfo{DidSuffix: sfx, Patches: []patch.Patch{patches[0], svc("s2")}, RecoveryKey: rec.JWK, RecoveryCommitment: rec2.Commitment(), UpdateCommitment: upd3.Commitment(), MultihashCode: lib.SHA256, Signer: rec.Signer(), RevealValue: rec.Reveal()})
	lib.Must(err)
	_, err = n.Handler.ProcessOperation(r1, 0)
	lib.Must(err)
	twice()
	u2, err := client.NewUpdateRequest(&client.UpdateRequestInfo{DidSuffix: sfx, Patches: []patch.Patch{svc("s3")}, UpdateCommitment: upd4.Commitment(), UpdateKey: upd3.JWK, MultihashCode: lib.SHA256, Signer: upd3.Signer(), RevealValue: upd3.Reveal()})
	lib.Must(err)
	_, err = n.Handler.ProcessOperation(u2, 0)
	lib.Must(err)
	twice()
	t.Logf("stored operations for the DID: %d", len(n.Store.Ops[sfx]))
	rr, err := n.Handler.ResolveDocument(lib.NS + ":" + sfx)
	lib.Must(err)
	b, _ := json.Marshal(rr.Document["service"])
	m, _ := json.Marshal(rr.DocumentMetadata)
	t.Logf("services %s\nmeta %s", b, m)
	rm, _ := n.Proc.Resolve(sfx)
	if rm.UpdateCommitment != upd4.Commitment() || rm.RecoveryCommitment != rec2.Commitment() {
		t.Errorf("commitments wrong")
	}
}
