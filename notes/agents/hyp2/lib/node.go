// Package lib wires the real sidetree-core-go components into an in-memory node (scratch, audit only).
package lib

import (
	"crypto/ecdsa"
	"crypto/elliptic"
	"crypto/rand"
	"fmt"
	"sync"

	"github.com/trustbloc/sidetree-core-go/pkg/api/cas"
	"github.com/trustbloc/sidetree-core-go/pkg/api/operation"
	"github.com/trustbloc/sidetree-core-go/pkg/api/protocol"
	"github.com/trustbloc/sidetree-core-go/pkg/api/txn"
	"github.com/trustbloc/sidetree-core-go/pkg/batch"
	"github.com/trustbloc/sidetree-core-go/pkg/batch/cutter"
	"github.com/trustbloc/sidetree-core-go/pkg/batch/opqueue"
	"github.com/trustbloc/sidetree-core-go/pkg/commitment"
	"github.com/trustbloc/sidetree-core-go/pkg/compression"
	"github.com/trustbloc/sidetree-core-go/pkg/dochandler"
	"github.com/trustbloc/sidetree-core-go/pkg/jws"
	"github.com/trustbloc/sidetree-core-go/pkg/mocks"
	"github.com/trustbloc/sidetree-core-go/pkg/processor"
	"github.com/trustbloc/sidetree-core-go/pkg/util/ecsigner"
	"github.com/trustbloc/sidetree-core-go/pkg/util/pubkey"
	"github.com/trustbloc/sidetree-core-go/pkg/versions/1_0/doccomposer"
	"github.com/trustbloc/sidetree-core-go/pkg/versions/1_0/doctransformer/didtransformer"
	"github.com/trustbloc/sidetree-core-go/pkg/versions/1_0/docvalidator/didvalidator"
	"github.com/trustbloc/sidetree-core-go/pkg/versions/1_0/operationapplier"
	"github.com/trustbloc/sidetree-core-go/pkg/versions/1_0/operationparser"
	"github.com/trustbloc/sidetree-core-go/pkg/versions/1_0/txnprocessor"
	"github.com/trustbloc/sidetree-core-go/pkg/versions/1_0/txnprovider"
)

const SHA256 = 18

const NS = "did:sidetree"

func DefaultProtocol() protocol.Protocol {
	return protocol.Protocol{
		GenesisTime:                  0,
		MultihashAlgorithms:          []uint{SHA256},
		MaxOperationCount:            4,
		MaxOperationSize:             6000,
		MaxOperationHashLength:       100,
		MaxDeltaSize:                 3000,
		MaxCasURILength:              120,
		CompressionAlgorithm:         "GZIP",
		MaxChunkFileSize:             60000,
		MaxProvisionalIndexFileSize:  50000,
		MaxCoreIndexFileSize:         40000,
		MaxProofFileSize:             45000,
		SignatureAlgorithms:          []string{"EdDSA", "ES256", "ES256K"},
		KeyAlgorithms:                []string{"Ed25519", "P-256", "secp256k1"},
		Patches:                      []string{"replace", "add-public-keys", "remove-public-keys", "add-services", "remove-services", "ietf-json-patch", "add-also-known-as", "remove-also-known-as"},
		MaxOperationTimeDelta:        7200,
		NonceSize:                    16,
		MaxMemoryDecompressionFactor: 3,
	}
}

type metricsNoop struct{}

func (metricsNoop) CASWriteSize(string, int) {}

// Version is a protocol.Version from real 1.0 components.
type Version struct {
	P        protocol.Protocol
	Parser   *operationparser.Parser
	Applier  *operationapplier.Applier
	Composer *doccomposer.DocumentComposer
	Handler  *txnprovider.OperationHandler
	Provider *txnprovider.OperationProvider
	TxnProc  protocol.TxnProcessor
	Valid    *didvalidator.Validator
	Transf   *didtransformer.Transformer
}

func (v *Version) Version() string                                  { return "1.0" }
func (v *Version) Protocol() protocol.Protocol                      { return v.P }
func (v *Version) TransactionProcessor() protocol.TxnProcessor      { return v.TxnProc }
func (v *Version) OperationParser() protocol.OperationParser        { return v.Parser }
func (v *Version) OperationApplier() protocol.OperationApplier      { return v.Applier }
func (v *Version) OperationHandler() protocol.OperationHandler      { return v.Handler }
func (v *Version) OperationProvider() protocol.OperationProvider    { return v.Provider }
func (v *Version) DocumentComposer() protocol.DocumentComposer      { return v.Composer }
func (v *Version) DocumentValidator() protocol.DocumentValidator    { return v.Valid }
func (v *Version) DocumentTransformer() protocol.DocumentTransformer { return v.Transf }

type Client struct{ Versions []*Version }

func (c *Client) Current() (protocol.Version, error) { return c.Versions[len(c.Versions)-1], nil }
func (c *Client) Get(t uint64) (protocol.Version, error) {
	for i := len(c.Versions) - 1; i >= 0; i-- {
		if t >= c.Versions[i].P.GenesisTime {
			return c.Versions[i], nil
		}
	}
	return nil, fmt.Errorf("protocol parameters are not defined for anchoring time: %d", t)
}

// MemCAS is an in-memory CAS.
type MemCAS struct {
	mu sync.Mutex
	M  map[string][]byte
	n  int
}

func NewMemCAS() *MemCAS { return &MemCAS{M: map[string][]byte{}} }
func (c *MemCAS) Write(b []byte) (string, error) {
	c.mu.Lock()
	defer c.mu.Unlock()
	c.n++
	k := fmt.Sprintf("cas%04d", c.n)
	c.M[k] = append([]byte{}, b...)
	return k, nil
}
func (c *MemCAS) Read(a string) ([]byte, error) {
	c.mu.Lock()
	defer c.mu.Unlock()
	b, ok := c.M[a]
	if !ok {
		return nil, fmt.Errorf("not found")
	}
	return b, nil
}

var _ cas.Client = (*MemCAS)(nil)

// Store is an in-memory operation store.
type Store struct {
	mu  sync.Mutex
	Ops map[string][]*operation.AnchoredOperation
}

func NewStore() *Store { return &Store{Ops: map[string][]*operation.AnchoredOperation{}} }
func (s *Store) Put(ops []*operation.AnchoredOperation) error {
	s.mu.Lock()
	defer s.mu.Unlock()
	for _, o := range ops {
		s.Ops[o.UniqueSuffix] = append(s.Ops[o.UniqueSuffix], o)
	}
	return nil
}
func (s *Store) Get(sfx string) ([]*operation.AnchoredOperation, error) {
	s.mu.Lock()
	defer s.mu.Unlock()
	ops, ok := s.Ops[sfx]
	if !ok {
		return nil, fmt.Errorf("uniqueSuffix not found in the store")
	}
	return append([]*operation.AnchoredOperation{}, ops...), nil
}

// Unpub is an unpublished operation store.
type Unpub struct {
	mu  sync.Mutex
	Ops map[string][]*operation.AnchoredOperation
}

func NewUnpub() *Unpub { return &Unpub{Ops: map[string][]*operation.AnchoredOperation{}} }
func (s *Unpub) Put(o *operation.AnchoredOperation) error {
	s.mu.Lock()
	defer s.mu.Unlock()
	s.Ops[o.UniqueSuffix] = append(s.Ops[o.UniqueSuffix], o)
	return nil
}
func (s *Unpub) Delete(o *operation.AnchoredOperation) error {
	s.mu.Lock()
	defer s.mu.Unlock()
	delete(s.Ops, o.UniqueSuffix)
	return nil
}
func (s *Unpub) DeleteAll(ops []*operation.AnchoredOperation) error {
	for _, o := range ops {
		_ = s.Delete(o)
	}
	return nil
}
func (s *Unpub) Get(sfx string) ([]*operation.AnchoredOperation, error) {
	s.mu.Lock()
	defer s.mu.Unlock()
	ops, ok := s.Ops[sfx]
	if !ok {
		return nil, fmt.Errorf("not found")
	}
	return ops, nil
}

// Ledger records anchors.
type Ledger struct {
	mu   sync.Mutex
	Txns []txn.SidetreeTxn
	Time uint64
}

func (l *Ledger) WriteAnchor(anchor string, _ []*protocol.AnchorDocument, _ []*operation.Reference, pv uint64) error {
	l.mu.Lock()
	defer l.mu.Unlock()
	l.Txns = append(l.Txns, txn.SidetreeTxn{Namespace: NS, AnchorString: anchor, TransactionTime: l.Time,
		TransactionNumber: uint64(len(l.Txns)), ProtocolVersion: pv, CanonicalReference: fmt.Sprintf("ref%d", len(l.Txns))})
	return nil
}
func (l *Ledger) Read(int) (bool, *txn.SidetreeTxn) { return false, nil }

type batchCtx struct {
	pc protocol.Client
	aw batch.AnchorWriter
	q  cutter.OperationQueue
}

func (c *batchCtx) Protocol() protocol.Client              { return c.pc }
func (c *batchCtx) Anchor() batch.AnchorWriter             { return c.aw }
func (c *batchCtx) OperationQueue() cutter.OperationQueue  { return c.q }

// Node is the whole pipeline.
type Node struct {
	P       protocol.Protocol
	V       *Version
	PC      *Client
	CAS     *MemCAS
	Store   *Store
	Unpub   *Unpub
	Ledger  *Ledger
	Queue   *opqueue.MemQueue
	Writer  *batch.Writer
	Proc    *processor.OperationProcessor
	Handler *dochandler.DocumentHandler
	seen    int
}

// ParserOpts are passed to operationparser.New by NewNode.
var ParserOpts []operationparser.Option

func NewNode(p protocol.Protocol, withUnpub bool) *Node {
	n := &Node{P: p, CAS: NewMemCAS(), Store: NewStore(), Unpub: NewUnpub(), Ledger: &Ledger{Time: 1000}, Queue: &opqueue.MemQueue{}}
	v := &Version{P: p}
	v.Parser = operationparser.New(p, ParserOpts...)
	v.Composer = doccomposer.New()
	v.Applier = operationapplier.New(p, v.Parser, v.Composer)
	cp := compression.New(compression.WithDefaultAlgorithms())
	v.Handler = txnprovider.NewOperationHandler(p, n.CAS, cp, v.Parser, metricsNoop{})
	v.Provider = txnprovider.NewOperationProvider(p, v.Parser, n.CAS, cp)
	var tpo []txnprocessor.Option
	if withUnpub {
		tpo = append(tpo, txnprocessor.WithUnpublishedOperationStore(n.Unpub, []operation.Type{operation.TypeCreate, operation.TypeUpdate, operation.TypeRecover, operation.TypeDeactivate}))
	}
	v.TxnProc = txnprocessor.New(&txnprocessor.Providers{OpStore: n.Store, OperationProtocolProvider: v.Provider}, tpo...)
	v.Valid = didvalidator.New()
	v.Transf = didtransformer.New()
	n.V = v
	n.PC = &Client{Versions: []*Version{v}}
	w, err := batch.New(NS, &batchCtx{pc: n.PC, aw: n.Ledger, q: n.Queue})
	if err != nil {
		panic(err)
	}
	n.Writer = w
	var popts []processor.Option
	var hopts []dochandler.Option
	if withUnpub {
		popts = append(popts, processor.WithUnpublishedOperationStore(n.Unpub))
		hopts = append(hopts, dochandler.WithUnpublishedOperationStore(n.Unpub, []operation.Type{operation.TypeCreate, operation.TypeUpdate, operation.TypeRecover, operation.TypeDeactivate}))
	}
	n.Proc = processor.New(NS, n.Store, n.PC, popts...)
	n.Handler = dochandler.New(NS, nil, n.PC, w, n.Proc, &mocks.MetricsProvider{}, hopts...)
	return n
}

// Observe processes every ledger transaction not yet seen; returns the errors.
func (n *Node) Observe() []error {
	var errs []error
	for ; n.seen < len(n.Ledger.Txns); n.seen++ {
		t := n.Ledger.Txns[n.seen]
		_, err := n.V.TxnProc.Process(t)
		if err != nil {
			errs = append(errs, err)
		}
	}
	return errs
}

// Key is a P-256 key with helper methods.
type Key struct {
	Priv *ecdsa.PrivateKey
	JWK  *jws.JWK
}

func NewKey() *Key {
	pk, err := ecdsa.GenerateKey(elliptic.P256(), rand.Reader)
	if err != nil {
		panic(err)
	}
	j, err := pubkey.GetPublicKeyJWK(&pk.PublicKey)
	if err != nil {
		panic(err)
	}
	return &Key{Priv: pk, JWK: j}
}
func (k *Key) CommitmentWith(code uint) string {
	c, err := commitment.GetCommitment(k.JWK, code)
	if err != nil {
		panic(err)
	}
	return c
}
func (k *Key) RevealWith(code uint) string {
	c, err := commitment.GetRevealValue(k.JWK, code)
	if err != nil {
		panic(err)
	}
	return c
}
func (k *Key) Commitment() string {
	c, err := commitment.GetCommitment(k.JWK, SHA256)
	if err != nil {
		panic(err)
	}
	return c
}
func (k *Key) Reveal() string {
	c, err := commitment.GetRevealValue(k.JWK, SHA256)
	if err != nil {
		panic(err)
	}
	return c
}
func (k *Key) Signer() *ecsigner.Signer { return ecsigner.New(k.Priv, "ES256", "") }

func Must(err error) {
	if err != nil {
		panic(err)
	}
}
