package repro

// C15 / C20: DocumentHandler.ProcessOperation returns an ERROR for a create request, yet the request stays in the batch
// queue and in the unpublished-operation store, is anchored, stored - and the DID can never be resolved.
import (
	"testing"

	"github.com/trustbloc/sidetree-core-go/pkg/patch"
	"github.com/trustbloc/sidetree-core-go/pkg/versions/1_0/client"

	"hyp2/lib"
)

// key type Ed25519VerificationKey2018 carrying a P-256 JWK: passes patch validation (type / purposes / JWK member checks are independent)
const doc = `{"publicKey":[{"id":"k1","type":"Ed25519VerificationKey2018","purposes":["authentication"],
 "publicKeyJwk":{"kty":"EC","crv":"P-256","x":"PUymIqdtF_qxaAqPABSw-C-owT1KYYQbsMKFM-L9fJA","y":"nM84jDHCMOTGTh_ZdHq4dBBdo4Z5PkEOW9jA8z8IsGc"}}]}`

func TestCreateResponseFailsAfterQueueing(t *testing.T) {
	for _, withUnpub := range []bool{false, true} {
		n := lib.NewNode(lib.DefaultProtocol(), withUnpub)
		rec, upd := lib.NewKey(), lib.NewKey()
		patches, err := patch.PatchesFromDocument(doc)
		lib.Must(err)
		req, err := client.NewCreateRequest(&client.CreateRequestInfo{Patches: patches, RecoveryCommitment: rec.Commitment(),
			UpdateCommitment: upd.Commitment(), MultihashCode: lib.SHA256})
		lib.Must(err)

		res, err := n.Handler.ProcessOperation(req, 0)
		t.Logf("unpub=%v ProcessOperation: result=%v err=%v", withUnpub, res, err)
		t.Logf("queue length after the refused call: %d ; unpublished store entries: %d", n.Queue.Len(), len(n.Unpub.Ops))
		if err != nil && n.Queue.Len() != 0 {
			t.Errorf("ProcessOperation returned an error but the operation is in the batch queue (len=%d)", n.Queue.Len())
		}
		if err != nil && len(n.Unpub.Ops) != 0 {
			t.Errorf("ProcessOperation returned an error but the operation is in the unpublished-operation store")
		}
		// it goes all the way
		n.Writer.VerifStep(true)
		t.Logf("ledger transactions: %d", len(n.Ledger.Txns))
		errs := n.Observe()
		t.Logf("observer errors: %v ; stored suffixes: %d", errs, len(n.Store.Ops))
		for sfx := range n.Store.Ops {
			_, rerr := n.Handler.ResolveDocument(lib.NS + ":" + sfx)
			t.Logf("ResolveDocument(%s:%s) err=%v", lib.NS, sfx, rerr)
		}
	}
}
