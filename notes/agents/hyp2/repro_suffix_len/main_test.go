package repro

// C13 hypothesis valid_ref (suffix length <= MaxOperationHashLength): intake never checks the length of didSuffix of an
// update / recover / deactivate, the provider does. Configuration: suffixes are computed with the FIRST algorithm (sha2-512, 88
// characters) while MaxOperationHashLength = 60 admits only sha2-256 hashes in requests.
import (
	"testing"

	"github.com/trustbloc/sidetree-core-go/pkg/patch"
	"github.com/trustbloc/sidetree-core-go/pkg/versions/1_0/client"

	"hyp2/lib"
)

const keyDoc = `{"publicKey":[{"id":"k1","type":"JsonWebKey2020","purposes":["authentication"],"publicKeyJwk":{"kty":"EC","crv":"P-256","x":"PUymIqdtF_qxaAqPABSw-C-owT1KYYQbsMKFM-L9fJA","y":"nM84jDHCMOTGTh_ZdHq4dBBdo4Z5PkEOW9jA8z8IsGc"}}]}`

func TestLongSuffix(t *testing.T) {
	p := lib.DefaultProtocol()
	p.MultihashAlgorithms = []uint{19, 18}
	p.MaxOperationHashLength = 60
	n := lib.NewNode(p, false)
	rec, upd, upd2 := lib.NewKey(), lib.NewKey(), lib.NewKey()
	patches, err := patch.PatchesFromDocument(keyDoc)
	lib.Must(err)
	req, err := client.NewCreateRequest(&client.CreateRequestInfo{Patches: patches, RecoveryCommitment: rec.Commitment(), UpdateCommitment: upd.Commitment(), MultihashCode: lib.SHA256})
	lib.Must(err)
	res, err := n.Handler.ProcessOperation(req, 0)
	lib.Must(err)
	sfx := res.Document.ID()[len(lib.NS)+1:]
	t.Logf("suffix length %d", len(sfx))
	n.Writer.VerifStep(true)
	t.Logf("observe create: %v stored=%d", n.Observe(), len(n.Store.Ops))
	ap, _ := patch.NewAddServiceEndpointsPatch(`[{"id":"svc1","type":"T","serviceEndpoint":"https://a.example"}]`)
	ureq, err := client.NewUpdateRequest(&client.UpdateRequestInfo{DidSuffix: sfx, Patches: []patch.Patch{ap}, UpdateCommitment: upd2.Commitment(),
		UpdateKey: upd.JWK, MultihashCode: lib.SHA256, Signer: upd.Signer(), RevealValue: upd.Reveal()})
	lib.Must(err)
	_, err = n.Handler.ProcessOperation(ureq, 0)
	t.Logf("update intake err=%v", err)
	// an unrelated create shares the batch
	req2, _ := client.NewCreateRequest(&client.CreateRequestInfo{Patches: patches, RecoveryCommitment: upd2.Commitment(), UpdateCommitment: rec.Commitment(), MultihashCode: lib.SHA256})
	_, err = n.Handler.ProcessOperation(req2, 0)
	lib.Must(err)
	n.Writer.VerifStep(true)
	t.Logf("ledger %d queue %d", len(n.Ledger.Txns), n.Queue.Len())
	errs := n.Observe()
	t.Logf("observe: %v; stored DIDs %d", errs, len(n.Store.Ops))
	if len(errs) > 0 {
		t.Errorf("batch written for accepted operations is unreadable; the unrelated create in it is lost too")
	}
}
