package repro

// C17 round trip, hypothesis key_plain inside wf_document: a member name with a double quote needs no JSON-pointer escaping
// (only '~' and '/' do) but is pasted unescaped into the JSON TEXT of the generated ietf-json-patch.
import (
	"encoding/json"
	"testing"

	"github.com/trustbloc/sidetree-core-go/pkg/document"
	"github.com/trustbloc/sidetree-core-go/pkg/patch"
	"github.com/trustbloc/sidetree-core-go/pkg/versions/1_0/doccomposer"
)

func roundTrip(t *testing.T, doc string) {
	ps, err := patch.PatchesFromDocument(doc)
	if err != nil {
		t.Logf("doc %s: PatchesFromDocument error: %v", doc, err)
		return
	}
	out, err := doccomposer.New().ApplyPatches(make(document.Document), ps)
	if err != nil {
		t.Logf("doc %s: ApplyPatches error: %v", doc, err)
		return
	}
	b, _ := json.Marshal(out)
	var want, got interface{}
	_ = json.Unmarshal([]byte(doc), &want)
	_ = json.Unmarshal(b, &got)
	wb, _ := json.Marshal(want)
	gb, _ := json.Marshal(got)
	pb, _ := json.Marshal(ps)
	t.Logf("doc     %s\npatches %s\nresult  %s", wb, pb, gb)
	if string(wb) != string(gb) {
		t.Errorf("round trip does not reproduce the document")
	}
}

func TestNames(t *testing.T) {
	roundTrip(t, `{"plain":1}`)
	// the member name is:  a","value":true,"path":"/b
	roundTrip(t, `{"a\",\"value\":true,\"path\":\"/b":"secret"}`)
	roundTrip(t, `{"q\"x":1}`)
	roundTrip(t, `{"back\\slash":1}`)
	roundTrip(t, `{"tab\tname":1}`)
}
