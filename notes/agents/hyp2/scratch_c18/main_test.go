package scratch

import (
	"encoding/json"
	"fmt"
	"testing"

	"github.com/trustbloc/sidetree-core-go/pkg/document"
	"github.com/trustbloc/sidetree-core-go/pkg/patch"
	"github.com/trustbloc/sidetree-core-go/pkg/versions/1_0/doccomposer"
	"github.com/trustbloc/sidetree-core-go/pkg/versions/1_0/operationparser/patchvalidator"
)

const base = `{"publicKey":[{"id":"k1","type":"JsonWebKey2020","publicKeyJwk":{"kty":"EC","crv":"P-256","x":"a","y":"b"}}],"service":[{"id":"s1","type":"T","serviceEndpoint":"https://x.example"}],"other":{"a":[1,2]}}`

func try(t *testing.T, ops string) {
	defer func() {
		if r := recover(); r != nil {
			t.Errorf("PANIC for %s: %v", ops, r)
		}
	}()
	var p patch.Patch
	raw := fmt.Sprintf(`{"action":"ietf-json-patch","patches":%s}`, ops)
	if err := json.Unmarshal([]byte(raw), &p); err != nil {
		t.Logf("%-90s unmarshal: %v", ops, err)
		return
	}
	if err := patchvalidator.Validate(p); err != nil {
		t.Logf("%-90s REJECTED: %v", ops, err)
		return
	}
	d, _ := document.FromBytes([]byte(base))
	out, err := doccomposer.New().ApplyPatches(d, []patch.Patch{p})
	if err != nil {
		t.Logf("%-90s accepted, apply error: %v", ops, err)
		return
	}
	b, _ := json.Marshal(out)
	var before, after map[string]interface{}
	_ = json.Unmarshal([]byte(base), &before)
	_ = json.Unmarshal(b, &after)
	pb, _ := json.Marshal(before["publicKey"])
	pa, _ := json.Marshal(after["publicKey"])
	sb, _ := json.Marshal(before["service"])
	sa, _ := json.Marshal(after["service"])
	t.Logf("%-90s accepted, result %s", ops, b)
	if string(pb) != string(pa) || string(sb) != string(sa) {
		t.Errorf("protected section changed by accepted patch %s", ops)
	}
}

func TestPaths(t *testing.T) {
	for _, ops := range []string{
		`[{"op":"replace","path":"","value":{"publicKey":[]}}]`,
		`[{"op":"add","path":"","value":{"x":1}}]`,
		`[{"op":"remove","path":""}]`,
		`[{"op":"move","from":"","path":"/x"}]`,
		`[{"op":"copy","from":"","path":"/x"}]`,
		`[{"op":"copy","from":"/other","path":""}]`,
		`[{"op":"move","from":"/other","path":""}]`,
		`[{"op":"test","path":"/publicKey/0/id","value":"k1"}]`,
		`[{"op":"add","path":"/","value":1}]`,
		`[{"op":"add","path":"//publicKey","value":1}]`,
		`[{"op":"add","path":"/publicKey~","value":1}]`,
		`[{"op":"add","path":"/~0publicKey","value":1}]`,
		`[{"op":"add","path":"/other/a/-","value":{"publicKey":1}}]`,
		`[{"op":"add","path":"/PublicKey","value":1}]`,
		`[{"op":"copy","from":"/other","path":"/o2"},{"op":"add","path":"/o2/a/0","value":9}]`,
		`[{"OP":"remove","PATH":"/publicKey"}]`,
		`[{"op":"remove","path":"/other","Path":"/publicKey"}]`,
		`[{"op":"remove","path":"/other","path":"/publicKey"}]`,
		`[{"op":"remove","path":"/publicKey","path":"/other"}]`,
		`[{"op":"remove","path":"\/publicKey"}]`,
		`[{"op":"remove","path":"/publicKey"}]`,
		`[{"op":"add","path":"/other/a/1e0","value":1}]`,
		`[{"op":"add","path":"/other/a/+1","value":1}]`,
		`[{"op":"add","path":"/other/a/-1","value":1}]`,
		`[{"op":"add","path":"/other/a/9223372036854775807","value":1}]`,
		`[{"op":"add","path":"/other/a/99999999999999999999","value":1}]`,
		`[[]]`, `[null]`, `[1]`, `{}`, `null`, `[]`,
	} {
		try(t, ops)
	}
}
