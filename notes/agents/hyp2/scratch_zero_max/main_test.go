package scratch

import (
	"testing"
	"time"

	"github.com/trustbloc/sidetree-core-go/pkg/patch"
	"github.com/trustbloc/sidetree-core-go/pkg/versions/1_0/client"

	"hyp2/lib"
)

const keyDoc = `{"publicKey":[{"id":"k1","type":"JsonWebKey2020","purposes":["authentication"],"publicKeyJwk":{"kty":"EC","crv":"P-256","x":"PUymIqdtF_qxaAqPABSw-C-owT1KYYQbsMKFM-L9fJA","y":"nM84jDHCMOTGTh_ZdHq4dBBdo4Z5PkEOW9jA8z8IsGc"}}]}`

func TestZeroMax(t *testing.T) {
	p := lib.DefaultProtocol()
	p.MaxOperationCount = 0
	n := lib.NewNode(p, false)
	rec, upd := lib.NewKey(), lib.NewKey()
	patches, _ := patch.PatchesFromDocument(keyDoc)
	req, err := client.NewCreateRequest(&client.CreateRequestInfo{Patches: patches, RecoveryCommitment: rec.Commitment(), UpdateCommitment: upd.Commitment(), MultihashCode: lib.SHA256})
	lib.Must(err)
	_, err = n.Handler.ProcessOperation(req, 0)
	lib.Must(err)
	done := make(chan uint)
	go func() { done <- n.Writer.VerifStep(true) }()
	select {
	case pnd := <-done:
		t.Logf("forced tick returned pending=%d, ledger=%d queue=%d", pnd, len(n.Ledger.Txns), n.Queue.Len())
	case <-time.After(5 * time.Second):
		t.Errorf("forced tick does not return")
	}
}
