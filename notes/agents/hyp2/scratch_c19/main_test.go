package scratch

import (
	"encoding/json"
	"testing"

	"github.com/trustbloc/sidetree-core-go/pkg/api/protocol"
	"github.com/trustbloc/sidetree-core-go/pkg/document"
	"github.com/trustbloc/sidetree-core-go/pkg/versions/1_0/doctransformer/didtransformer"
)

func TestTimes(t *testing.T) {
	doc, _ := document.FromBytes([]byte(`{"publicKey":[{"id":"k1","type":"JsonWebKey2020","purposes":["authentication","authentication"],"publicKeyJwk":{"kty":"EC","crv":"P-256","x":"a","y":"b"}}]}`))
	for _, ct := range []uint64{0, 1, 1 << 62, 1<<63 - 1, 1 << 63, 1<<63 + 5, 1<<64 - 1} {
		rm := &protocol.ResolutionModel{Doc: doc, CreatedTime: ct, UpdatedTime: ct, VersionID: "v"}
		info := protocol.TransformationInfo{document.IDProperty: "did:x:abc", document.PublishedProperty: true}
		res, err := didtransformer.New().TransformDocument(rm, info)
		if err != nil {
			t.Logf("%d: err %v", ct, err)
			continue
		}
		b, _ := json.Marshal(res.DocumentMetadata)
		t.Logf("%d: %s", ct, b)
		if ct == 0 {
			d, _ := json.Marshal(res.Document)
			t.Logf("doc %s", d)
		}
	}
}
