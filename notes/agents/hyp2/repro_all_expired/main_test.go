package repro

// C13 hypothesis `p_included p <> []`: a batch whose operations have all expired between intake and cutting.
import (
	"testing"

	"github.com/trustbloc/sidetree-core-go/pkg/patch"
	"github.com/trustbloc/sidetree-core-go/pkg/versions/1_0/client"
	"github.com/trustbloc/sidetree-core-go/pkg/versions/1_0/operationparser"

	"hyp2/lib"
)

type clock struct{ now int64 }

func (c *clock) Validate(from, until int64) error {
	if from == 0 && until == 0 {
		return nil
	}
	if from > c.now {
		return operationparser.ErrOperationEarly
	}
	if until < c.now {
		return operationparser.ErrOperationExpired
	}
	return nil
}

func TestAllExpired(t *testing.T) {
	ck := &clock{now: 1000}
	lib.ParserOpts = []operationparser.Option{operationparser.WithAnchorTimeValidator(ck)}
	n := lib.NewNode(lib.DefaultProtocol(), false)
	rec, upd, upd2 := lib.NewKey(), lib.NewKey(), lib.NewKey()
	patches, err := patch.PatchesFromDocument(`{"publicKey":[{"id":"k1","type":"JsonWebKey2020","purposes":["authentication"],"publicKeyJwk":{"kty":"EC","crv":"P-256","x":"PUymIqdtF_qxaAqPABSw-C-owT1KYYQbsMKFM-L9fJA","y":"nM84jDHCMOTGTh_ZdHq4dBBdo4Z5PkEOW9jA8z8IsGc"}}]}`)
	lib.Must(err)
	req, err := client.NewCreateRequest(&client.CreateRequestInfo{Patches: patches, RecoveryCommitment: rec.Commitment(), UpdateCommitment: upd.Commitment(), MultihashCode: lib.SHA256})
	lib.Must(err)
	res, err := n.Handler.ProcessOperation(req, 0)
	lib.Must(err)
	did := res.Document.ID()
	sfx := did[len(lib.NS)+1:]
	n.Writer.VerifStep(true)
	if e := n.Observe(); len(e) > 0 {
		t.Fatal(e)
	}
	// an update valid until 1500
	ap, err := patch.NewAddServiceEndpointsPatch(`[{"id":"svc1","type":"T","serviceEndpoint":"https://a.example"}]`)
	lib.Must(err)
	ureq, err := client.NewUpdateRequest(&client.UpdateRequestInfo{DidSuffix: sfx, Patches: []patch.Patch{ap}, UpdateCommitment: upd2.Commitment(),
		UpdateKey: upd.JWK, MultihashCode: lib.SHA256, Signer: upd.Signer(), RevealValue: upd.Reveal(), AnchorFrom: 900, AnchorUntil: 1500})
	lib.Must(err)
	_, err = n.Handler.ProcessOperation(ureq, 0)
	lib.Must(err)
	t.Logf("queued: %d", n.Queue.Len())
	ck.now = 2000 // the operation expires before the batch is cut
	n.Ledger.Time = 2000
	before := len(n.Ledger.Txns)
	n.Writer.VerifStep(true)
	t.Logf("queue after cut: %d; new ledger transactions: %d", n.Queue.Len(), len(n.Ledger.Txns)-before)
	for _, tx := range n.Ledger.Txns[before:] {
		t.Logf("anchored: %q", tx.AnchorString)
		ops, err := n.V.Provider.GetTxnOperations(&tx)
		t.Logf("GetTxnOperations: ops=%d err=%v", len(ops), err)
	}
	t.Logf("observer: %v", n.Observe())
}
