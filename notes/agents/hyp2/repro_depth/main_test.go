package repro

// C13 hypothesis text_ok (jdepth <= 10000): a request whose JSON nesting is within encoding/json's limit of 10000 at intake
// sits deeper inside the batch file the handler writes, which the provider then cannot decode: the whole batch is unreadable.
import (
	"strings"
	"testing"

	"github.com/trustbloc/sidetree-core-go/pkg/patch"
	"github.com/trustbloc/sidetree-core-go/pkg/versions/1_0/client"

	"hyp2/lib"
)

const keyDoc = `{"publicKey":[{"id":"k1","type":"JsonWebKey2020","purposes":["authentication"],"publicKeyJwk":{"kty":"EC","crv":"P-256","x":"PUymIqdtF_qxaAqPABSw-C-owT1KYYQbsMKFM-L9fJA","y":"nM84jDHCMOTGTh_ZdHq4dBBdo4Z5PkEOW9jA8z8IsGc"}}]}`

func nested(d int) interface{} {
	var v interface{} = []interface{}{}
	for i := 1; i < d; i++ {
		v = []interface{}{v}
	}
	return v
}

func create(t *testing.T, origin interface{}) []byte {
	rec, upd := lib.NewKey(), lib.NewKey()
	patches, err := patch.PatchesFromDocument(keyDoc)
	lib.Must(err)
	req, err := client.NewCreateRequest(&client.CreateRequestInfo{Patches: patches, RecoveryCommitment: rec.Commitment(),
		UpdateCommitment: upd.Commitment(), MultihashCode: lib.SHA256, AnchorOrigin: origin})
	lib.Must(err)
	return req
}

func TestDeepOriginPoisonsBatch(t *testing.T) {
	p := lib.DefaultProtocol()
	p.MaxOperationSize = 30000
	p.MaxDeltaSize = 3000
	p.MaxCoreIndexFileSize = 1000000
	n := lib.NewNode(p, false)

	good := create(t, "origin.example")
	_, err := n.Handler.ProcessOperation(good, 0)
	lib.Must(err)
	for _, d := range []int{9999, 9998, 9997} {
		deep := create(t, nested(d))
		_, err = n.Handler.ProcessOperation(deep, 0)
		t.Logf("depth of anchorOrigin %d: request %d bytes, max '[' run %d, intake err=%v", d, len(deep), strings.Count(string(deep), "["), err != nil)
		if err == nil {
			break
		}
	}
	t.Logf("queued: %d", n.Queue.Len())
	for tick := 0; tick < 3; tick++ {
		n.Writer.VerifStep(true)
		t.Logf("after forced tick %d: ledger transactions: %d, queue %d", tick, len(n.Ledger.Txns), n.Queue.Len())
	}
	if len(n.Ledger.Txns) == 0 && n.Queue.Len() == 2 {
		t.Errorf("no CAS / anchor failure was injected, yet no accepted operation is ever anchored: the handler cannot marshal the core index file and the batch returns to the head of the queue on every tick")
	}
	for i := range n.Ledger.Txns {
		ops, err := n.V.Provider.GetTxnOperations(&n.Ledger.Txns[i])
		t.Logf("GetTxnOperations(%s): %d operations, err=%v", n.Ledger.Txns[i].AnchorString, len(ops), err)
		if err != nil {
			t.Errorf("files written by the handler for accepted operations cannot be read back")
		}
	}
	t.Logf("observer errors: %v; stored DIDs: %d (2 operations were accepted)", n.Observe(), len(n.Store.Ops))
}
