package repro

// C20: hidden hypothesis "the intake verdict of a request does not depend on the protocol version" (rq_intake_ok is one boolean).
// A create accepted under version 1; version 2 (in force before the create is anchored) has a smaller MaxDeltaSize.
import (
	"encoding/base64"
	"encoding/json"
	"testing"

	"github.com/trustbloc/sidetree-core-go/pkg/canonicalizer"
	"github.com/trustbloc/sidetree-core-go/pkg/compression"
	"github.com/trustbloc/sidetree-core-go/pkg/patch"
	"github.com/trustbloc/sidetree-core-go/pkg/versions/1_0/client"
	"github.com/trustbloc/sidetree-core-go/pkg/versions/1_0/doccomposer"
	"github.com/trustbloc/sidetree-core-go/pkg/versions/1_0/doctransformer/didtransformer"
	"github.com/trustbloc/sidetree-core-go/pkg/versions/1_0/docvalidator/didvalidator"
	"github.com/trustbloc/sidetree-core-go/pkg/versions/1_0/model"
	"github.com/trustbloc/sidetree-core-go/pkg/versions/1_0/operationapplier"
	"github.com/trustbloc/sidetree-core-go/pkg/versions/1_0/operationparser"
	"github.com/trustbloc/sidetree-core-go/pkg/versions/1_0/txnprocessor"
	"github.com/trustbloc/sidetree-core-go/pkg/versions/1_0/txnprovider"

	"hyp2/lib"
)

const keyDoc = `{"publicKey":[{"id":"k1","type":"JsonWebKey2020","purposes":["authentication"],"publicKeyJwk":{"kty":"EC","crv":"P-256","x":"PUymIqdtF_qxaAqPABSw-C-owT1KYYQbsMKFM-L9fJA","y":"nM84jDHCMOTGTh_ZdHq4dBBdo4Z5PkEOW9jA8z8IsGc"}}],"service":[{"id":"s1","type":"T","serviceEndpoint":"https://a.example/0123456789012345678901234567890123456789012345678901234567890123456789"}]}`

type noop struct{}

func (noop) CASWriteSize(string, int) {}

func TestLongFormAcrossVersions(t *testing.T) {
	n := lib.NewNode(lib.DefaultProtocol(), false)
	rec, upd := lib.NewKey(), lib.NewKey()
	patches, _ := patch.PatchesFromDocument(keyDoc)
	req, err := client.NewCreateRequest(&client.CreateRequestInfo{Patches: patches, RecoveryCommitment: rec.Commitment(), UpdateCommitment: upd.Commitment(), MultihashCode: lib.SHA256})
	lib.Must(err)
	res, err := n.Handler.ProcessOperation(req, 0)
	lib.Must(err)
	did := res.Document.ID()
	var cr model.CreateRequest
	lib.Must(json.Unmarshal(req, &cr))
	initial, err := canonicalizer.MarshalCanonical(&model.CreateRequest{SuffixData: cr.SuffixData, Delta: cr.Delta})
	lib.Must(err)
	long := did + ":" + base64.RawURLEncoding.EncodeToString(initial)
	r0, err := n.Handler.ResolveDocument(long)
	t.Logf("version 1 in force: long-form resolution err=%v ok=%v", err, r0 != nil)

	// version 2 comes into force at time 2000 with a smaller delta limit
	p2 := lib.DefaultProtocol()
	p2.GenesisTime = 2000
	p2.MaxDeltaSize = 300
	v2 := &lib.Version{P: p2}
	v2.Parser = operationparser.New(p2)
	v2.Composer = doccomposer.New()
	v2.Applier = operationapplier.New(p2, v2.Parser, v2.Composer)
	cp := compression.New(compression.WithDefaultAlgorithms())
	v2.Handler = txnprovider.NewOperationHandler(p2, n.CAS, cp, v2.Parser, noop{})
	v2.Provider = txnprovider.NewOperationProvider(p2, v2.Parser, n.CAS, cp)
	v2.TxnProc = txnprocessor.New(&txnprocessor.Providers{OpStore: n.Store, OperationProtocolProvider: v2.Provider})
	v2.Valid = didvalidator.New()
	v2.Transf = didtransformer.New()
	n.PC.Versions = append(n.PC.Versions, v2)
	n.Ledger.Time = 2500

	_, err = n.Handler.ResolveDocument(long)
	t.Logf("version 2 in force, create still queued: long-form resolution err=%v", err)
	if err != nil {
		t.Errorf("long-form resolution before anchoring fails although the create was accepted and answered")
	}
	n.Writer.VerifStep(true)
	t.Logf("anchored under protocol version %d; observe: %v", n.Ledger.Txns[0].ProtocolVersion, n.Observe())
	r2, err := n.Handler.ResolveDocument(did)
	t.Logf("short-form after anchoring: err=%v ok=%v", err, r2 != nil)
}
