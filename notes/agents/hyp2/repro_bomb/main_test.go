package repro

// C14: "decompressing to more than limit x factor is rejected" - it is, but only AFTER the whole stream has been inflated
// into memory (gzip.Decompress = io.ReadAll without a bound): the limit does not bound memory.
import (
	"bytes"
	"compress/gzip"
	"runtime"
	"testing"

	"github.com/trustbloc/sidetree-core-go/pkg/api/txn"

	"hyp2/lib"
)

func bomb(n int) []byte {
	var buf bytes.Buffer
	zw, _ := gzip.NewWriterLevel(&buf, gzip.BestCompression)
	chunk := make([]byte, 1<<20)
	for i := 0; i < n; i++ {
		_, _ = zw.Write(chunk)
	}
	_ = zw.Close()
	return buf.Bytes()
}

func TestBomb(t *testing.T) {
	p := lib.DefaultProtocol() // MaxCoreIndexFileSize 40000, factor 3: at most 120000 bytes after decompression
	n := lib.NewNode(p, false)
	for _, mb := range []int{1, 16, 38} {
		b := bomb(mb)
		uri, _ := n.CAS.Write(b)
		var m0, m1 runtime.MemStats
		runtime.GC()
		runtime.ReadMemStats(&m0)
		_, err := n.V.Provider.GetTxnOperations(&txn.SidetreeTxn{Namespace: lib.NS, AnchorString: "1." + uri, TransactionTime: 1, TransactionNumber: 1})
		runtime.ReadMemStats(&m1)
		t.Logf("served file %d bytes (limit %d, decompressed limit %d) inflates to %d MiB: allocated %d MiB while reading; err=%v",
			len(b), p.MaxCoreIndexFileSize, p.MaxCoreIndexFileSize*p.MaxMemoryDecompressionFactor, mb, (m1.TotalAlloc-m0.TotalAlloc)>>20, err)
	}
}
