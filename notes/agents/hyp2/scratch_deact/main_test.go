package scratch

import (
	"testing"

	"github.com/trustbloc/sidetree-core-go/pkg/patch"
	"github.com/trustbloc/sidetree-core-go/pkg/versions/1_0/client"
	"github.com/trustbloc/sidetree-core-go/pkg/versions/1_0/operationparser"

	"hyp2/lib"
)

const keyDoc = `{"publicKey":[{"id":"k1","type":"JsonWebKey2020","purposes":["authentication"],"publicKeyJwk":{"kty":"EC","crv":"P-256","x":"PUymIqdtF_qxaAqPABSw-C-owT1KYYQbsMKFM-L9fJA","y":"nM84jDHCMOTGTh_ZdHq4dBBdo4Z5PkEOW9jA8z8IsGc"}}]}`

type clock struct{ now int64 }

func (c *clock) Validate(from, until int64) error {
	if from == 0 && until == 0 {
		return nil
	}
	if from > c.now {
		return operationparser.ErrOperationEarly
	}
	if until < c.now {
		return operationparser.ErrOperationExpired
	}
	return nil
}

// batch = [deactivate A (expires), deactivate B, deactivate B again]: only deactivates included, but len(ops) differs
func TestDeactivateMix(t *testing.T) {
	ck := &clock{now: 1000}
	lib.ParserOpts = []operationparser.Option{operationparser.WithAnchorTimeValidator(ck)}
	p := lib.DefaultProtocol()
	p.MaxOperationCount = 10
	n := lib.NewNode(p, false)
	type did struct {
		sfx      string
		rec, upd *lib.Key
	}
	var dids []did
	for i := 0; i < 2; i++ {
		rec, upd := lib.NewKey(), lib.NewKey()
		patches, _ := patch.PatchesFromDocument(keyDoc)
		req, err := client.NewCreateRequest(&client.CreateRequestInfo{Patches: patches, RecoveryCommitment: rec.Commitment(), UpdateCommitment: upd.Commitment(), MultihashCode: lib.SHA256})
		lib.Must(err)
		res, err := n.Handler.ProcessOperation(req, 0)
		lib.Must(err)
		dids = append(dids, did{res.Document.ID()[len(lib.NS)+1:], rec, upd})
	}
	n.Writer.VerifStep(true)
	if e := n.Observe(); len(e) > 0 {
		t.Fatal(e)
	}
	mk := func(d did, until int64) []byte {
		r, err := client.NewDeactivateRequest(&client.DeactivateRequestInfo{DidSuffix: d.sfx, RecoveryKey: d.rec.JWK, Signer: d.rec.Signer(), RevealValue: d.rec.Reveal(), AnchorFrom: 900, AnchorUntil: until})
		lib.Must(err)
		return r
	}
	for _, r := range [][]byte{mk(dids[0], 1500), mk(dids[1], 5000), mk(dids[1], 5000)} {
		_, err := n.Handler.ProcessOperation(r, 0)
		lib.Must(err)
	}
	ck.now = 2000
	n.Ledger.Time = 2000
	before := len(n.Ledger.Txns)
	n.Writer.VerifStep(true)
	for i := before; i < len(n.Ledger.Txns); i++ {
		ops, err := n.V.Provider.GetTxnOperations(&n.Ledger.Txns[i])
		t.Logf("anchor %s: read back %d ops err=%v", n.Ledger.Txns[i].AnchorString, len(ops), err)
		for _, o := range ops {
			t.Logf("   %s %s", o.Type, o.UniqueSuffix)
		}
		if err != nil {
			t.Errorf("unreadable")
		}
	}
	t.Logf("queue %d", n.Queue.Len())
	n.Writer.VerifStep(true)
	t.Logf("after second tick: ledger %d queue %d", len(n.Ledger.Txns), n.Queue.Len())
	t.Logf("observe %v", n.Observe())
}
