// Probes of specific inputs for the C17 report.
package main

import (
	"encoding/json"
	"fmt"

	"github.com/trustbloc/sidetree-core-go/pkg/document"
	"github.com/trustbloc/sidetree-core-go/pkg/patch"
	"github.com/trustbloc/sidetree-core-go/pkg/versions/1_0/doccomposer"
)

func apply(docJSON string, patchesJSON ...string) {
	defer func() {
		if r := recover(); r != nil {
			fmt.Printf("  doc=%s patches=%v\n    => PANIC: %v\n", docJSON, patchesJSON, r)
		}
	}()
	var doc document.Document
	if err := json.Unmarshal([]byte(docJSON), &doc); err != nil {
		panic(err)
	}
	var ps []patch.Patch
	for _, pj := range patchesJSON {
		p := make(patch.Patch)
		if err := json.Unmarshal([]byte(pj), &p); err != nil {
			panic(err)
		}
		_, ferr := patch.FromBytes([]byte(pj))
		fmt.Printf("  patch.FromBytes accepts %s: %v\n", pj, ferr == nil)
		ps = append(ps, p)
	}
	res, err := doccomposer.New().ApplyPatches(doc, ps)
	b, _ := json.Marshal(res)
	fmt.Printf("  doc=%s patches=%v\n    => %s err=%v\n", docJSON, patchesJSON, b, err)
}

func from(text string) {
	defer func() {
		if r := recover(); r != nil {
			fmt.Printf("  PatchesFromDocument(%s) => PANIC: %v\n", text, r)
		}
	}()
	ps, err := patch.PatchesFromDocument(text)
	b, _ := json.Marshal(ps)
	fmt.Printf("  PatchesFromDocument(%s)\n    => %s err=%v\n", text, b, err)
	if err == nil {
		res, err := doccomposer.New().ApplyPatches(document.Document{}, ps)
		b, _ := json.Marshal(res)
		fmt.Printf("    applied to {} => %s err=%v\n", b, err)
	}
}

func main() {
	fmt.Println("1. same id twice in one add patch")
	apply(`{}`, `{"action":"add-public-keys","publicKeys":[{"id":"k1","type":"a"},{"id":"k1","type":"b"}]}`)
	apply(`{}`, `{"action":"add-services","services":[{"id":"s1","type":"a"},{"id":"s1","type":"b"}]}`)
	apply(`{}`, `{"action":"add-also-known-as","uris":["u","u"]}`)
	apply(`{"publicKey":[{"id":"k1","type":"old"}]}`, `{"action":"add-public-keys","publicKeys":[{"id":"k1","type":"a"},{"id":"k1","type":"b"}]}`)
	fmt.Println("2. sections left empty become null")
	apply(`{"publicKey":[{"id":"k1"}]}`, `{"action":"remove-public-keys","ids":["k1"]}`)
	apply(`{}`, `{"action":"add-public-keys","publicKeys":[]}`)
	apply(`{"publicKey":[]}`, `{"action":"remove-services","ids":[]}`)
	fmt.Println("3. ill typed")
	apply(`{"publicKey":"str","service":[1,{"id":"s"}]}`, `{"action":"add-public-keys","publicKeys":"str"}`, `{"action":"remove-services","ids":"s"}`)
	apply(`{"publicKey":[{"type":"noid"},{"id":7,"type":"numid"}]}`, `{"action":"remove-public-keys","ids":[""]}`)
	apply(`{"publicKey":[{"type":"noid"},{"id":7,"type":"numid"}]}`, `{"action":"add-public-keys","publicKeys":[{"id":null,"type":"new"}]}`)
	fmt.Println("4. replace")
	apply(`{"publicKey":[{"id":"k1"}],"alsoKnownAs":["u"],"x":1}`, `{"action":"replace","document":{"publicKeys":[{"id":"k2"}]}}`)
	apply(`{"x":1}`, `{"action":"replace","document":null}`)
	apply(`{"x":1}`, `{"action":"replace","document":{"publicKeys":"zzz","services":5,"alsoKnownAs":["u"]}}`)
	apply(`{"x":1}`, `{"action":"replace","document":[]}`)
	fmt.Println("5. nil document")
	apply(`null`)
	apply(`null`, `{"action":"add-public-keys","publicKeys":[]}`)
	apply(`null`, `{"action":"remove-also-known-as","uris":[]}`)
	apply(`null`, `{"action":"replace","document":{}}`, `{"action":"add-public-keys","publicKeys":[]}`)
	fmt.Println("6. json patch producing null / non-object, then a write")
	apply(`{"x":1}`, `{"action":"ietf-json-patch","patches":[{"op":"replace","path":"","value":null}]}`)
	apply(`{"x":1}`, `{"action":"ietf-json-patch","patches":[{"op":"replace","path":"","value":null}]}`, `{"action":"add-public-keys","publicKeys":[]}`)
	apply(`{"x":1}`, `{"action":"ietf-json-patch","patches":null}`)
	apply(`{"x":1}`, `{"action":"ietf-json-patch","patches":[]}`)
	apply(`{"x":1}`, `{"action":"ietf-json-patch","patches":"str"}`)
	apply(`null`, `{"action":"ietf-json-patch","patches":[]}`)
	apply(`null`, `{"action":"ietf-json-patch","patches":[{"op":"add","path":"/x","value":1}]}`)
	apply(`{"x":1}`, `{"action":"ietf-json-patch","patches":[{"op":"add","path":"/x","value":{"a":[1,2]}},{"op":"add","path":"/y","value":null}]}`)
	fmt.Println("7. action typing")
	apply(`{}`, `{"action":1,"ids":[]}`)
	apply(`{}`, `{"action":null,"ids":[]}`)
	apply(`{}`, `{"ids":[]}`)
	apply(`{}`, `null`)
	fmt.Println("8. PatchesFromDocument")
	from(`{"publicKey":[{"id":"k1","type":"a"}],"service":[{"id":"s1"}],"alsoKnownAs":["u"],"x":{"a":1}}`)
	from(`{"publicKey":[],"service":"str"}`)
	from(`{"alsoKnownAs":[null,"u"]}`)
	from(`{"alsoKnownAs":[]}`)
	from(`{"alsoKnownAs":null}`)
	from(`{"alsoKnownAs":[1]}`)
	from(`{"id":"did:x"}`)
	from(`{"id":""}`)
	from(`{"id":5}`)
	from(`null`)
	from(`[]`)
	from(`{"a\"b":1}`)
	from(`{"a\\b":1}`)
	from(`{"a\\\"b":1}`)
	from(`{"a\nb":1}`)
	from(`{"x\",\"op\":\"remove":1}`)
	from(`{"x\",\"path\":\"/publicKey":[]}`)
	from(`{"a/b":1}`)
	from(`{"a~b":1}`)
	from(`{"a~1b":1}`)
	from(`{"":1}`)
	from(`{"publicKey":[{"id":"k1","type":"a"},{"id":"k1","type":"b"}]}`)
}
