// Differential generator for the JSON-patch engine model (SV.Doc.JsonPatch.jp_apply).
// usage: jpgen gen <outdir> <seed> | jpgen worker
package main

import (
	"bufio"
	"encoding/json"
	"fmt"
	"math/rand"
	"os"
	"os/exec"
	"runtime/debug"
	"strconv"
	"strings"
	"time"

	jsonpatch "github.com/evanphx/json-patch"
)

type req struct {
	Ops, Doc string
	Rep      int
}
type resp struct {
	O int    // 0 ok, 1 err, 2 panic
	R string // result document
}

func applyOnce(ops, doc string) (r resp) {
	defer func() {
		if e := recover(); e != nil {
			r = resp{O: 2}
		}
	}()
	p, err := jsonpatch.DecodePatch([]byte(ops))
	if err != nil {
		return resp{O: 1}
	}
	out, err := p.Apply([]byte(doc))
	if err != nil {
		return resp{O: 1}
	}
	return resp{O: 0, R: string(out)}
}

func worker() {
	debug.SetMaxStack(64 << 20)
	in := bufio.NewReaderSize(os.Stdin, 1<<20)
	out := bufio.NewWriter(os.Stdout)
	for {
		line, err := in.ReadBytes('\n')
		if err != nil {
			return
		}
		var q req
		if err := json.Unmarshal(line, &q); err != nil {
			panic(err)
		}
		best := resp{O: -1}
		for i := 0; i < q.Rep; i++ {
			r := applyOnce(q.Ops, q.Doc)
			if r.O > best.O {
				best = r
			}
		}
		b, _ := json.Marshal(best)
		out.Write(b)
		out.WriteByte('\n')
		out.Flush()
	}
}

type wproc struct {
	cmd *exec.Cmd
	in  *bufio.Writer
	out *bufio.Reader
}

func startWorker() *wproc {
	self, _ := os.Executable()
	cmd := exec.Command("bash", "-c", `ulimit -v 4000000; exec "$0" worker 2>/dev/null`, self)
	stdin, _ := cmd.StdinPipe()
	stdout, _ := cmd.StdoutPipe()
	if err := cmd.Start(); err != nil {
		panic(err)
	}
	return &wproc{cmd: cmd, in: bufio.NewWriter(stdin), out: bufio.NewReaderSize(stdout, 1<<20)}
}

var wp *wproc
var fatals int

// runReal runs the real library in the child; a dead child or a timeout is a fatal error (outcome 2).
func runReal(q req) resp {
	if wp == nil {
		wp = startWorker()
	}
	b, _ := json.Marshal(q)
	wp.in.Write(b)
	wp.in.WriteByte('\n')
	wp.in.Flush()
	ch := make(chan *resp, 1)
	go func(o *bufio.Reader) {
		line, err := o.ReadBytes('\n')
		if err != nil {
			ch <- nil
			return
		}
		var r resp
		if json.Unmarshal(line, &r) != nil {
			ch <- nil
			return
		}
		ch <- &r
	}(wp.out)
	select {
	case r := <-ch:
		if r != nil {
			return *r
		}
	case <-time.After(60 * time.Second):
	}
	wp.cmd.Process.Kill()
	wp.cmd.Wait()
	wp = nil
	fatals++
	return resp{O: 2}
}

// ---------- generation ----------

var rng *rand.Rand

func pick(l []string) string { return l[rng.Intn(len(l))] }

var scalars = []string{`1`, `2`, `"s"`, `true`, `null`, `""`}

func genDoc(depth int) string {
	if depth == 0 {
		return pick(scalars)
	}
	switch rng.Intn(5) {
	case 0:
		return pick(scalars)
	case 1, 2:
		n := rng.Intn(4)
		var it []string
		for i := 0; i < n; i++ {
			it = append(it, genDoc(depth-1))
		}
		return "[" + strings.Join(it, ",") + "]"
	default:
		keys := []string{"a", "b", "c", "a~b", "c/d", "", "0", "-", "publicKey", "service"}
		n := rng.Intn(4)
		seen := map[string]bool{}
		var it []string
		for i := 0; i < n; i++ {
			k := keys[rng.Intn(len(keys))]
			if i == 0 && rng.Intn(2) == 0 {
				k = "a"
			}
			if seen[k] {
				continue
			}
			seen[k] = true
			kb, _ := json.Marshal(k)
			it = append(it, string(kb)+":"+genDoc(depth-1))
		}
		return "{" + strings.Join(it, ",") + "}"
	}
}

func genContainerDoc() string {
	for {
		d := genDoc(3)
		if d[0] == '{' || d[0] == '[' {
			return d
		}
	}
}

var fixedDocs = []string{
	`{}`, `[]`, `null`, `1`, `"s"`, `true`,
	`{"a":[1,2]}`, `{"a":{"x":1},"b":[1,2,3]}`, `{"a":[[1],{"k":null}],"b":null}`,
	`[1,2]`, `[{"x":[1]},[2,3]]`, `{"a":{"b":{"c":1}}}`, `{"a~b":1,"c/d":[5],"":{"":2}}`,
	`{"publicKey":[{"id":"k"}],"service":[{"id":"s"}],"x":[1]}`, `{"a":[null,1],"b":{"n":null}}`,
	`[[1,[2]],[],{}]`, `{"a":[],"b":{}}`,
}

func escTok(k string) string {
	k = strings.ReplaceAll(k, "~", "~0")
	return strings.ReplaceAll(k, "/", "~1")
}

// all pointers to existing places, plus their containers' lengths
func collectPaths(v *jv, prefix string, out *[]string) {
	*out = append(*out, prefix)
	switch v.kind {
	case 'a':
		n := len(v.arr)
		for _, t := range []string{"-", "-1", "-2", strconv.Itoa(-n), strconv.Itoa(-n - 1), strconv.Itoa(-n - 2), "0", strconv.Itoa(n - 1), strconv.Itoa(n), strconv.Itoa(n + 1), strconv.Itoa(n + 3), "01", "+0", "x", "", "1_0", "-0"} {
			*out = append(*out, prefix+"/"+t)
		}
		for i, e := range v.arr {
			collectPaths(e, prefix+"/"+strconv.Itoa(i), out)
		}
	case 'o':
		for _, t := range []string{"zz", "", "-", "0", "-1"} {
			*out = append(*out, prefix+"/"+t)
		}
		for i, k := range v.keys {
			collectPaths(v.vals[i], prefix+"/"+escTok(k), out)
		}
	default:
		*out = append(*out, prefix+"/x", prefix+"/0", prefix+"/-1")
	}
}

func subValues(v *jv, out *[]string) {
	b := v.text()
	*out = append(*out, b)
	for _, e := range v.arr {
		subValues(e, out)
	}
	for _, e := range v.vals {
		subValues(e, out)
	}
}

func (v *jv) text() string {
	switch v.kind {
	case 'n':
		return "null"
	case 'b':
		return strconv.FormatBool(v.b)
	case 'f':
		b, _ := json.Marshal(v.f)
		return string(b)
	case 's':
		b, _ := json.Marshal(v.s)
		return string(b)
	case 'a':
		var it []string
		for _, e := range v.arr {
			it = append(it, e.text())
		}
		return "[" + strings.Join(it, ",") + "]"
	default:
		var it []string
		for i, k := range v.keys {
			kb, _ := json.Marshal(k)
			it = append(it, string(kb)+":"+v.vals[i].text())
		}
		return "{" + strings.Join(it, ",") + "}"
	}
}

var extraPaths = []string{"", "/", "a", "x/a", "x/a/0", "unknown", "//", "/a/", "/a//0", "/~", "/~2", "/a~0b", "/a~1b", "/c~1d/0", "/a~01", "x/publicKey", "/publicKey/0", "/service", "/a/9223372036854775807", "/a/9223372036854775806", "/a/99999999999", "/a/9223372036854775808", "/a/-9223372036854775808", "/a/-9223372036854775809", "/a/0/99999999999"}

var extraValues = []string{`1`, `"s"`, `null`, `[]`, `{}`, `[null]`, `{"x":null}`, `{"x":1}`, `[1,2]`, `[[1]]`, `{"a":[1,2]}`, `{"k":null,"z":1}`, `[1,null]`, `true`, `2`}

type opgen struct {
	paths  []string
	values []string
	exist  []string          // pointers of existing nodes (not the root)
	valAt  map[string]string // their texts
	addable []string         // pointers where add succeeds
}

func collectExist(v *jv, prefix string, g *opgen) {
	if prefix != "" {
		g.exist = append(g.exist, prefix)
		g.valAt[prefix] = v.text()
	}
	switch v.kind {
	case 'a':
		g.addable = append(g.addable, prefix+"/-", prefix+"/0", prefix+"/"+strconv.Itoa(len(v.arr)), prefix+"/-1")
		for i, e := range v.arr {
			collectExist(e, prefix+"/"+strconv.Itoa(i), g)
		}
	case 'o':
		g.addable = append(g.addable, prefix+"/new", prefix+"/a", prefix+"/n~1w")
		for i, k := range v.keys {
			collectExist(v.vals[i], prefix+"/"+escTok(k), g)
		}
	}
}

// an operation that is likely to apply
func (g *opgen) genGoodOp() string {
	if len(g.exist) == 0 || len(g.addable) == 0 {
		return g.genOp()
	}
	q := func(s string) string { b, _ := json.Marshal(s); return string(b) }
	val := func() string {
		if rng.Intn(2) == 0 {
			return pick(extraValues)
		}
		return pick(g.values)
	}
	switch rng.Intn(7) {
	case 0:
		return `{"op":"add","path":` + q(pick(g.addable)) + `,"value":` + val() + `}`
	case 1:
		return `{"op":"remove","path":` + q(pick(g.exist)) + `}`
	case 2:
		return `{"op":"replace","path":` + q(pick(g.exist)) + `,"value":` + val() + `}`
	case 3:
		return `{"op":"move","from":` + q(pick(g.exist)) + `,"path":` + q(pick(g.addable)) + `}`
	case 4:
		return `{"op":"copy","from":` + q(pick(g.exist)) + `,"path":` + q(pick(g.addable)) + `}`
	case 5:
		p := pick(g.exist)
		return `{"op":"test","path":` + q(p) + `,"value":` + g.valAt[p] + `}`
	default:
		return `{"op":"copy","from":` + q(pick(g.exist)) + `,"path":` + q(pick(g.exist)) + `}`
	}
}

func (g *opgen) genOp() string {
	kinds := []string{"add", "remove", "replace", "move", "copy", "test"}
	k := pick(kinds)
	var mem []string
	// op member
	switch rng.Intn(40) {
	case 0:
		mem = append(mem, `"op":"bogus"`)
	case 1:
		mem = append(mem, `"op":1`)
	case 2:
		mem = append(mem, `"op":null`)
	case 3: // absent
	case 4:
		mem = append(mem, `"op":"Add"`)
	default:
		mem = append(mem, `"op":"`+k+`"`)
	}
	ptr := func() string {
		switch rng.Intn(30) {
		case 0:
			return `null`
		case 1:
			return `5`
		case 2:
			return `["/a"]`
		case 3:
			return ""
		}
		var p string
		if rng.Intn(6) == 0 {
			p = pick(extraPaths)
		} else {
			p = pick(g.paths)
		}
		b, _ := json.Marshal(p)
		return string(b)
	}
	if p := ptr(); p != "" {
		mem = append(mem, `"path":`+p)
	}
	needFrom := k == "move" || k == "copy"
	if needFrom || rng.Intn(10) == 0 {
		if p := ptr(); p != "" {
			mem = append(mem, `"from":`+p)
		}
	}
	needVal := k == "add" || k == "replace" || k == "test"
	if (needVal && rng.Intn(12) != 0) || (!needVal && rng.Intn(8) == 0) {
		var v string
		if rng.Intn(3) == 0 {
			v = pick(extraValues)
		} else {
			v = pick(g.values)
		}
		mem = append(mem, `"value":`+v)
	}
	if rng.Intn(50) == 0 && len(mem) > 0 { // duplicate member: last wins
		mem = append(mem, mem[0])
	}
	rng.Shuffle(len(mem), func(i, j int) { mem[i], mem[j] = mem[j], mem[i] })
	return "{" + strings.Join(mem, ",") + "}"
}

func genOps(g *opgen, n int) string {
	switch rng.Intn(60) {
	case 0:
		return `null`
	case 1:
		return `{}`
	case 2:
		return `[1]`
	case 3:
		return `[null]`
	case 4:
		return `["add"]`
	case 5:
		return `[[]]`
	case 6:
		return `3`
	}
	var it []string
	for i := 0; i < n; i++ {
		if rng.Intn(3) != 0 {
			it = append(it, g.genGoodOp())
		} else {
			it = append(it, g.genOp())
		}
	}
	return "[" + strings.Join(it, ",") + "]"
}

func san(s string) string {
	s = strings.ReplaceAll(s, "\"", "'")
	s = strings.ReplaceAll(s, "(*", "( *")
	return strings.ReplaceAll(s, "*)", "* )")
}

type kase struct {
	ops, doc string
	r        resp
}

func main() {
	if len(os.Args) > 1 && os.Args[1] == "worker" {
		worker()
		return
	}
	outdir := os.Args[2]
	seed, _ := strconv.Atoi(os.Args[3])
	perDoc, _ := strconv.Atoi(os.Args[4])
	rng = rand.New(rand.NewSource(int64(seed)))
	docs := append([]string{}, fixedDocs...)
	for i := 0; i < 40; i++ {
		docs = append(docs, genContainerDoc())
	}
	var cases []kase
	stats := map[int]int{}
	for _, d := range docs {
		v, err := parseJSON([]byte(d))
		if err != nil {
			panic(err)
		}
		g := &opgen{valAt: map[string]string{}}
		collectExist(v, "", g)
		collectPaths(v, "", &g.paths)
		subValues(v, &g.values)
		for i := 0; i < perDoc; i++ {
			n := 1 + rng.Intn(3)
			if i < perDoc/3 {
				n = 1
			}
			ops := genOps(g, n)
			rep := 1
			if strings.Contains(ops, `"test"`) {
				rep = 200
			}
			r := runReal(req{Ops: ops, Doc: d, Rep: rep})
			stats[r.O]++
			cases = append(cases, kase{ops, d, r})
		}
	}
	// emit
	per := 400
	for s := 0; s*per < len(cases); s++ {
		var sb strings.Builder
		sb.WriteString("From Coq Require Import List ZArith NArith String.\nImport ListNotations.\n")
		sb.WriteString("From SV Require Import Base.Bytes Json.Ast Doc.JsonPatch Corr.Validator.\n")
		sb.WriteString("Definition cases : list pcase18 := [\n")
		hi := (s + 1) * per
		if hi > len(cases) {
			hi = len(cases)
		}
		for i := s * per; i < hi; i++ {
			c := cases[i]
			res := "None"
			if c.r.O == 0 {
				res = "(Some " + galOfText(c.r.R) + ")"
			}
			sb.WriteString(fmt.Sprintf("  (* %d: %s | %s *)\n  Build_pcase18 %s %s %d%%nat %s", i, san(c.ops), san(c.doc), galOfText(c.ops), galOfText(c.doc), c.r.O, res))
			if i+1 < hi {
				sb.WriteString(";")
			}
			sb.WriteString("\n")
		}
		sb.WriteString("].\n")
		sb.WriteString(fmt.Sprintf("Definition M := Eval vm_compute in jp_mismatches %d%%nat cases.\nPrint M.\n", s*per))
		name := fmt.Sprintf("%s/JpCases_%d_%03d.v", outdir, seed, s)
		if err := os.WriteFile(name, []byte(sb.String()), 0o644); err != nil {
			panic(err)
		}
	}
	fmt.Printf("cases=%d ok=%d err=%d crash=%d (fatal child deaths=%d)\n", len(cases), stats[0], stats[1], stats[2], fatals)
}
