#!/bin/bash
# usage: runcases.sh <dir> <glob-prefix>   compiles every generated case file and prints its mismatch list
cd /verif/coq || exit 1
for f in "$1"/$2*.v; do
  b=$(basename "$f" .v)
  out=$(timeout 600 coqc -Q theories SV -Q "$1" Scratch "$f" 2>&1)
  echo "$b: $(echo "$out" | tr '\n' ' ' | cut -c1-600)"
done
