package main

import (
	"encoding/json"
	"fmt"
	"os"

	jsonpatch "github.com/evanphx/json-patch"
	"github.com/trustbloc/sidetree-core-go/pkg/patch"
	"github.com/trustbloc/sidetree-core-go/pkg/versions/1_0/operationparser/patchvalidator"
)

func apply(ops, doc string) (res string) {
	defer func() {
		if r := recover(); r != nil {
			res = fmt.Sprintf("PANIC: %v", r)
		}
	}()
	p, err := jsonpatch.DecodePatch([]byte(ops))
	if err != nil {
		return "DECODE-ERR: " + err.Error()
	}
	out, err := p.Apply([]byte(doc))
	if err != nil {
		return "ERR: " + err.Error()
	}
	return "OK: " + string(out)
}

func validate(p string) (res string) {
	defer func() {
		if r := recover(); r != nil {
			res = fmt.Sprintf("PANIC: %v", r)
		}
	}()
	var pp patch.Patch
	if err := json.Unmarshal([]byte(p), &pp); err != nil {
		return "UNMARSHAL-ERR " + err.Error()
	}
	if err := patchvalidator.Validate(pp); err != nil {
		return "REJECT: " + err.Error()
	}
	return "ACCEPT"
}

func main() {
	if len(os.Args) > 1 && os.Args[1] == "v" {
		fmt.Println(validate(os.Args[2]))
		return
	}
	fmt.Println(apply(os.Args[1], os.Args[2]))
}
