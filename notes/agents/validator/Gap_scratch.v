From Coq Require Import String List NArith ZArith Bool Lia.
From Coq.Strings Require Import Byte.
From SV Require Import Base.Bytes Json.Ast Doc.JsonPatch Doc.Validator Doc.ValidatorProofs Doc.JsonPatchProofs.
Import ListNotations.

(* ====================================================================================== *)
(* 5. from the graph-level frame theorem to the JSON-level statement                        *)
(* ====================================================================================== *)

(* the code's rule is a string prefix test: names that START WITH "service" / "publicKey" *)
Definition prot_prefix (k : bytes) : bool := has_prefix (bs "service") k || has_prefix (bs "publicKey") k.

(* ---------- 5a. accepted pointers are unprotected ---------- *)

Lemma has_prefix_trans : forall p x s, has_prefix p x = true -> has_prefix x s = true -> has_prefix p s = true.
Proof.
  induction p as [|a p IH]; intros x s H1 H2; [reflexivity|].
  destruct x as [|b x]; [discriminate|]. destruct s as [|c s]; [discriminate|].
  cbn in *. apply andb_true_iff in H1. destruct H1 as [E1 H1]. apply andb_true_iff in H2. destruct H2 as [E2 H2].
  apply byte_eqb_true in E1. apply byte_eqb_true in E2. subst.
  apply andb_true_iff. split; [apply Byte.byte_dec_lb; reflexivity|]. eapply IH; eauto.
Qed.

Lemma split_first_prefix : forall s, exists x xs, split_slash s = x :: xs /\ has_prefix x s = true.
Proof.
  induction s as [|c r IH].
  - exists [], []. split; reflexivity.
  - cbn [split_slash]. destruct (Byte.eqb c slash).
    + exists [], (split_slash r). split; reflexivity.
    + destruct IH as [x [xs [E H]]]. rewrite E. exists (c :: x), xs. split; [reflexivity|].
      cbn. rewrite H. rewrite andb_true_r. apply Byte.byte_dec_lb. reflexivity.
Qed.

Definition plain (p : bytes) : Prop := Forall (fun b => Byte.eqb b tilde = false /\ Byte.eqb b slash = false) p.

(* unescaping cannot create a "~"- and "/"-free prefix that was not there before *)
Lemma prefix_decode_key : forall p x, plain p -> has_prefix p (decode_key x) = true -> has_prefix p x = true.
Proof.
  induction p as [|a p IH]; intros x Hp H; [reflexivity|].
  inversion Hp as [|a' p' [Ha1 Ha2] Hp']. subst.
  destruct x as [|c [|d r]].
  - cbn in H. discriminate.
  - cbn in H. exact H.
  - cbn [decode_key] in H.
    destruct (Byte.eqb c tilde) eqn:Ec.
    + apply byte_eqb_true in Ec. subst c.
      destruct (Byte.eqb d "1"%byte).
      { cbn in H. apply andb_true_iff in H. destruct H as [E _]. apply byte_eqb_true in E. subst a.
        vm_compute in Ha2. discriminate. }
      destruct (Byte.eqb d "0"%byte).
      { cbn in H. apply andb_true_iff in H. destruct H as [E _]. apply byte_eqb_true in E. subst a.
        vm_compute in Ha1. discriminate. }
      cbn in H. apply andb_true_iff in H. destruct H as [E _]. apply byte_eqb_true in E. subst a.
      vm_compute in Ha1. discriminate.
    + cbn [has_prefix] in H. apply andb_true_iff in H. destruct H as [E H].
      cbn [has_prefix]. rewrite E. cbn. apply IH; auto.
Qed.

Lemma plain_service : plain (bs "service").
Proof. repeat constructor. Qed.
Lemma plain_publicKey : plain (bs "publicKey").
Proof. repeat constructor. Qed.

Lemma pointer_ok_unprot : forall s, pointer_ok (JStr s) = true -> unprot prot_prefix s.
Proof.
  intros s H. unfold pointer_ok in H. apply andb_true_iff in H. destruct H as [Hlead Hprot].
  apply negb_true_iff in Hprot. unfold protected_path in Hprot. apply orb_false_iff in Hprot.
  destruct Hprot as [Hs Hk].
  unfold unprot, decode_pointer.
  destruct s as [|c rest]; [exact I|].
  apply byte_eqb_true in Hlead. subst c.
  change (split_slash ("/"%byte :: rest)) with ([] :: split_slash rest).
  destruct (split_first_prefix rest) as [x [xs [E Hx]]]. rewrite E. cbn [map].
  unfold prot_prefix. apply orb_false_iff. split.
  - destruct (has_prefix (bs "service") (decode_key x)) eqn:Ep; [|reflexivity].
    apply prefix_decode_key in Ep; [|apply plain_service].
    pose proof (has_prefix_trans _ _ _ Ep Hx) as Ht.
    change (has_prefix (B "/service") ("/"%byte :: rest)) with (has_prefix (bs "service") rest) in Hs.
    rewrite Ht in Hs. discriminate.
  - destruct (has_prefix (bs "publicKey") (decode_key x)) eqn:Ep; [|reflexivity].
    apply prefix_decode_key in Ep; [|apply plain_publicKey].
    pose proof (has_prefix_trans _ _ _ Ep Hx) as Ht.
    change (has_prefix (B "/publicKey") ("/"%byte :: rest)) with (has_prefix (bs "publicKey") rest) in Hk.
    rewrite Ht in Hk. discriminate.
Qed.

Lemma unprot_unknown : unprot prot_prefix unknown_str.
Proof. exact I. Qed.

Lemma op_accepted_unprot : forall o,
  jsonpatch_op_out o = VAccept -> exists d, decode_op o = Some d /\ op_unprot prot_prefix d.
Proof.
  intros o H. unfold jsonpatch_op_out in H. destruct o as [| | | | |m]; try discriminate.
  destruct (jlast (B "path") m) as [pj|] eqn:Ep; [|discriminate].
  apply vbool_accept in H. apply andb_true_iff in H. destruct H as [Hp Hf].
  eexists. split; [reflexivity|]. unfold op_unprot. cbn [o_path o_from]. unfold str_member.
  change (bs "path") with (B "path"). change (bs "from") with (B "from"). rewrite Ep.
  destruct pj as [| | |s| |]; try discriminate.
  split; [apply pointer_ok_unprot; exact Hp|]. intros _.
  destruct (jlast (B "from") m) as [fj|]; [|apply unprot_unknown].
  destruct fj as [| | |f| |]; try discriminate. apply pointer_ok_unprot. exact Hf.
Qed.

Lemma ops_accepted_unprot : forall l,
  jsonpatch_ops_out l = VAccept -> exists os, decode_ops l = Some os /\ Forall (op_unprot prot_prefix) os.
Proof.
  induction l as [|o l IH]; intros H.
  - exists []. split; [reflexivity|constructor].
  - cbn [jsonpatch_ops_out] in H. destruct (jsonpatch_op_out o) eqn:Eo; cbn in H; try discriminate.
    destruct (op_accepted_unprot o Eo) as [d [Ed Hd]]. destruct (IH H) as [os [Eos Hos]].
    exists (d :: os). split; [cbn; rewrite Ed, Eos; reflexivity|constructor; auto].
Qed.

(* accepted by validateJSONPatches => every operation's path and from are unprotected *)
Lemma paths_ok_unprot : forall ops,
  jsonpatch_paths_ok ops = true -> exists os, decode_patch ops = Some os /\ Forall (op_unprot prot_prefix) os.
Proof.
  intros ops H. unfold jsonpatch_paths_ok, jsonpatch_paths_out in H.
  destruct ops as [| | | |l|]; try discriminate.
  - exists []. split; [reflexivity|constructor].
  - destruct (forallb _ l); [|discriminate].
    destruct (jsonpatch_ops_out l) eqn:E; try discriminate. apply ops_accepted_unprot. exact E.
Qed.

(* ---------- 5b. the loaded document satisfies the invariant ---------- *)

(* protected nodes of a freshly loaded root object: the heap is filled member by member, so the node
   ranges of the members form a partition; a node is protected iff the member that owns it is *)
Fixpoint Sfun (prot : bytes -> bool) (m : list (bytes * json)) (h : heap) (r : nat) : bool :=
  match m with
  | [] => false
  | (k, x) :: rest =>
    let '(_, h1) := load x h in
    if (r <? length h1)%nat then (length h <=? r)%nat && prot k else Sfun prot rest h1 r
  end.

Lemma load_members_cons : forall k x r h,
  load_members ((k, x) :: r) h =
  let '(v, h1) := load x h in let '(ms, h2) := load_members r h1 in
  (if has_key k ms then ms else (k, v) :: ms, h2).
Proof. reflexivity. Qed.

Definition same_status (prot : bytes -> bool) (m : list (bytes * json)) (h H : heap) (b : bool) (c : hval) : Prop :=
  match c with
  | HRef r' => (length h <= r' < length H)%nat /\ Sfun prot m h r' = b
  | _ => True
  end.

Lemma Sfun_spec : forall prot m h ms H,
  load_members m h = (ms, H) ->
  (exists e, H = h ++ e)
  /\ (forall r, (r < length h)%nat \/ (length H <= r)%nat -> Sfun prot m h r = false)
  /\ (forall r, (length h <= r < length H)%nat ->
        Forall (same_status prot m h H (Sfun prot m h r)) (children (node_at H r)))
  /\ (forall k v, In (k, v) ms -> same_status prot m h H (prot k) v).
Proof.
  intros prot. induction m as [|[k x] rest IH]; intros h ms H Hl.
  - cbn in Hl. inversion Hl. subst. split; [exists []; rewrite app_nil_r; reflexivity|].
    split; [reflexivity|]. split; [intros r Hr; lia|]. intros k v [].
  - rewrite load_members_cons in Hl.
    destruct (load x h) as [v0 h1] eqn:Ex. destruct (load_members rest h1) as [ms' H'] eqn:Er.
    inversion Hl as [[Hms HH]]. subst H'. clear Hl.
    destruct (load_spec x h v0 h1 Ex) as [e1 [He1 [Hv0 Hext1]]].
    destruct (IH h1 ms' H Er) as [[e2 He2] [P1 [P2 P3]]].
    assert (L1 : (length h <= length h1)%nat) by (subst h1; rewrite app_length; lia).
    assert (L2 : (length h1 <= length H)%nat) by (subst H; rewrite app_length; lia).
    assert (Sin : forall r, (length h <= r < length h1)%nat -> Sfun prot ((k, x) :: rest) h r = prot k).
    { intros r Hr. cbn [Sfun]. rewrite Ex.
      destruct (r <? length h1)%nat eqn:E1; [|apply Nat.ltb_ge in E1; lia].
      destruct (length h <=? r)%nat eqn:E2; [reflexivity|apply Nat.leb_gt in E2; lia]. }
    assert (Sout : forall r, (length h1 <= r)%nat -> Sfun prot ((k, x) :: rest) h r = Sfun prot rest h1 r).
    { intros r Hr. cbn [Sfun]. rewrite Ex.
      destruct (r <? length h1)%nat eqn:E1; [apply Nat.ltb_lt in E1; lia|reflexivity]. }
    split; [exists (e1 ++ e2); subst H h1; rewrite app_assoc; reflexivity|].
    split; [|split].
    + intros r [Hr|Hr].
      * cbn [Sfun]. rewrite Ex. destruct (r <? length h1)%nat eqn:E1; [|apply Nat.ltb_ge in E1; lia].
        destruct (length h <=? r)%nat eqn:E2; [apply Nat.leb_le in E2; lia|reflexivity].
      * rewrite Sout by lia. apply P1. right. exact Hr.
    + intros r Hr. destruct (Nat.lt_ge_cases r (length h1)) as [Hlt|Hge].
      * (* a node of this member: its children are in the same range *)
        rewrite Sin by lia.
        assert (Hnode : node_at H r = nth (r - length h) e1 CNilDoc).
        { unfold node_at. subst H. rewrite app_nth1 by lia. subst h1. rewrite app_nth2 by lia. reflexivity. }
        rewrite Hnode.
        assert (Hin : In (nth (r - length h) e1 CNilDoc) e1).
        { apply nth_In. subst h1. rewrite app_length in Hlt. lia. }
        unfold ext_ok in Hext1. eapply Forall_forall in Hext1; [|exact Hin].
        eapply Forall_impl; [|exact Hext1]. intros c Hc. destruct c as [| | |r']; cbn [same_status vfresh okv vprot]; auto.
        cbn [same_status vfresh okv vprot] in Hc. split; [lia|]. apply Sin. lia.
      * rewrite Sout by lia.
        eapply Forall_impl; [|apply (P2 r); lia]. intros c Hc. destruct c as [| | |r']; cbn [same_status vfresh okv vprot]; auto.
        cbn [same_status vfresh okv vprot] in Hc. destruct Hc as [Hb Hs]. split; [lia|]. rewrite Sout by lia. exact Hs.
    + intros k' v' Hin.
      assert (Hcase : (k' = k /\ v' = v0) \/ In (k', v') ms').
      { destruct (has_key k ms'); [right; exact Hin|].
        destruct Hin as [E|Hin]; [inversion E; auto|auto]. }
      destruct Hcase as [[Ek Ev]|Hin'].
      * subst k' v'. destruct v0 as [| | |r']; cbn [same_status vfresh okv vprot]; auto. cbn [same_status vfresh okv vprot] in Hv0. split; [lia|]. apply Sin. exact Hv0.
      * pose proof (P3 k' v' Hin') as Hs. destruct v' as [| | |r']; cbn [same_status vfresh okv vprot]; auto.
        cbn [same_status vfresh okv vprot] in Hs. destruct Hs as [Hb Hs]. split; [lia|]. rewrite Sout by lia. exact Hs.
Qed.

(* the root object loaded by jp_apply *)
Lemma load_root_obj : forall m,
  exists ms H, load_members m [] = (ms, H) /\ load_root (JObj m) = Some (length H, H ++ [CDoc ms]).
Proof.
  intros m. destruct (load_members m []) as [ms H] eqn:E. exists ms, H. split; [reflexivity|].
  unfold load_root. rewrite load_obj_eq. rewrite E. reflexivity.
Qed.

Lemma node_at_app_old : forall (h e : heap) r, (r < length h)%nat -> node_at (h ++ e) r = node_at h r.
Proof. intros. unfold node_at. apply app_nth1. auto. Qed.

Lemma node_at_app_last : forall (h : heap) c, node_at (h ++ [c]) (length h) = c.
Proof. intros. unfold node_at. rewrite app_nth2 by lia. rewrite Nat.sub_diag. reflexivity. Qed.

Lemma loaded_root_inv : forall prot m ms H,
  load_members m [] = (ms, H) ->
  let St := Sfun prot m [] in
  let h0 := H ++ [CDoc ms] in
  Inv prot St (length H) h0 /\ closed St h0
  /\ (forall k v, In (k, v) ms -> prot k = true -> vprot St v).
Proof.
  intros prot m ms H Hl St h0.
  destruct (Sfun_spec prot m [] ms H Hl) as [_ [P1 [P2 P3]]]. cbn [length] in *.
  assert (Hlen : length (H ++ [CDoc ms]) = S (length H)) by (rewrite app_length; cbn; lia).
  unfold h0 in *. clear h0.
  split; [|split].
  - constructor.
    + lia.
    + intros r Hr. destruct (Nat.lt_ge_cases r (length H)) as [Hlt|Hge]; [lia|].
      unfold St in Hr. rewrite P1 in Hr by (right; exact Hge). discriminate.
    + apply P1. right. lia.
    + intros r HS Hne. destruct (Nat.lt_ge_cases r (length H)) as [Hlt|Hge].
      * rewrite node_at_app_old by exact Hlt.
        eapply Forall_impl; [|apply (P2 r); lia]. intros c Hc. destruct c as [| | |r']; cbn [same_status vfresh okv vprot]; auto.
        cbn [same_status vfresh okv vprot] in Hc. destruct Hc as [Hb Hs]. cbn [length] in Hb. split; [unfold St in *; rewrite Hs; exact HS|]. split; lia.
      * unfold node_at. rewrite nth_overflow; [constructor|]. rewrite app_length. cbn. lia.
    + exists ms. split; [apply node_at_app_last|].
      intros k v Hin Hp. pose proof (P3 k v Hin) as Hs. destruct v as [| | |r']; cbn [same_status vfresh okv vprot]; auto.
      cbn [same_status vfresh okv vprot] in Hs. destruct Hs as [Hb Hs]. cbn [length] in Hb. rewrite Hp in Hs.
      split; [exact Hs|]. split; lia.
  - intros r Hr. destruct (Nat.lt_ge_cases r (length H)) as [Hlt|Hge].
    + rewrite node_at_app_old by exact Hlt.
      eapply Forall_impl; [|apply (P2 r); lia]. intros c Hc. destruct c as [| | |r']; cbn [same_status vfresh okv vprot]; auto.
      cbn [same_status vfresh okv vprot] in Hc. destruct Hc as [_ Hs]. fold St in Hs. rewrite Hr in Hs. exact Hs.
    + unfold St in Hr. rewrite P1 in Hr by (right; exact Hge). discriminate.
  - intros k v Hin Hp. pose proof (P3 k v Hin) as Hs. destruct v as [| | |r']; cbn [same_status vfresh okv vprot]; auto.
    cbn [same_status vfresh okv vprot] in Hs. destruct Hs as [_ Hs]. rewrite Hp in Hs. exact Hs.
Qed.

(* ---------- 5c. marshalling a loaded value gives the value back ---------- *)

(* member names pairwise distinct in every object (what Go-decoded documents satisfy) *)
Fixpoint wf (j : json) : bool :=
  match j with
  | JArr l => (fix go (l : list json) : bool := match l with [] => true | x :: r => wf x && go r end) l
  | JObj m => nodup_bytes (map fst m)
              && (fix go (m : list (bytes * json)) : bool :=
                    match m with [] => true | (_, x) :: r => wf x && go r end) m
  | _ => true
  end.

Definition wf_list := fix go (l : list json) : bool := match l with [] => true | x :: r => wf x && go r end.
Definition wf_members := fix go (m : list (bytes * json)) : bool :=
  match m with [] => true | (_, x) :: r => wf x && go r end.

Lemma wf_arr : forall l, wf (JArr l) = wf_list l.
Proof. reflexivity. Qed.
Lemma wf_obj : forall m, wf (JObj m) = nodup_bytes (map fst m) && wf_members m.
Proof. reflexivity. Qed.

Definition unfold_members (f : nat) (h : heap) :=
  fix go (m : list (bytes * hval)) : option (list (bytes * json)) :=
    match m with
    | [] => Some []
    | (k, x) :: rest =>
      match unfold f h x, go rest with
      | Some j, Some js => Some ((k, j) :: js)
      | _, _ => None
      end
    end.

Definition unfold_list (f : nat) (h : heap) :=
  fix go (l : list hval) : option (list json) :=
    match l with
    | [] => Some []
    | x :: rest =>
      match unfold f h x, go rest with
      | Some j, Some js => Some (j :: js)
      | _, _ => None
      end
    end.

Lemma unfold_ref : forall f h r,
  unfold (S f) h (HRef r) =
  match node_at h r with
  | CNilDoc => Some JNull
  | CDoc m => match unfold_members f h m with Some js => Some (JObj js) | None => None end
  | CAry l => match unfold_list f h l with Some js => Some (JArr js) | None => None end
  end.
Proof. reflexivity. Qed.

Definition extends (h H : heap) : Prop := exists e, H = h ++ e.

Lemma extends_trans : forall a b c, extends a b -> extends b c -> extends a c.
Proof. intros a b c [e1 E1] [e2 E2]. exists (e1 ++ e2). subst. rewrite app_assoc. reflexivity. Qed.

Lemma extends_len : forall a b, extends a b -> (length a <= length b)%nat.
Proof. intros a b [e E]. subst. rewrite app_length. lia. Qed.

Definition RT (j : json) : Prop :=
  wf j = true -> forall h v h1, load j h = (v, h1) ->
  forall H f, extends h1 H -> (length h1 <= f)%nat -> unfold f H v = Some j.

Lemma has_key_mem : forall A k (m : list (bytes * A)), has_key k m = mem_bytes k (map fst m).
Proof. induction m as [|[k' x] m IH]; cbn; [reflexivity|]. rewrite IH. reflexivity. Qed.

(* names of the loaded members are names of the source members *)
Lemma load_members_keys : forall m h ms H k,
  load_members m h = (ms, H) -> has_key k ms = true -> has_key k m = true.
Proof.
  induction m as [|[k0 x] rest IH]; intros h ms H k Hl Hk.
  - cbn in Hl. inversion Hl. subst. discriminate.
  - rewrite load_members_cons in Hl. destruct (load x h) as [v0 h1]. destruct (load_members rest h1) as [ms' H'] eqn:Er.
    inversion Hl. subst. cbn [has_key].
    destruct (has_key k0 ms') eqn:E0.
    + apply orb_true_iff. right. eapply IH; eauto.
    + cbn [has_key] in Hk. apply orb_true_iff in Hk. apply orb_true_iff. destruct Hk as [Hk|Hk]; [left; exact Hk|right; eapply IH; eauto].
Qed.

Lemma RT_list : forall l, Forall RT l -> wf_list l = true ->
  forall h vs ha, load_list l h = (vs, ha) ->
  forall H f, extends ha H -> (length ha <= f)%nat -> unfold_list f H vs = Some l.
Proof.
  induction l as [|x r IH]; intros HF Hwf h vs ha Hl H f Hext Hf.
  - cbn in Hl. inversion Hl. reflexivity.
  - inversion HF as [|x' r' Hx Hr]. subst.
    cbn [wf_list] in Hwf. apply andb_true_iff in Hwf. destruct Hwf as [Wx Wr].
    cbn [load_list] in Hl. destruct (load x h) as [v hb] eqn:Ea.
    fold load_list in Hl. destruct (load_list r hb) as [vs' hc] eqn:Eb.
    inversion Hl. subst vs ha. clear Hl.
    assert (Hbc : extends hb hc).
    { assert (HFok : Forall load_ok r) by (apply Forall_forall; intros; apply load_spec).
      destruct (load_list_ok r HFok hb vs' hc Eb) as [e [He _]]. exists e. exact He. }
    cbn [unfold_list].
    rewrite (Hx Wx h v hb Ea H f (extends_trans _ _ _ Hbc Hext)) by (pose proof (extends_len _ _ Hbc); lia).
    fold (unfold_list f H). rewrite (IH Hr Wr hb vs' hc Eb H f Hext Hf). reflexivity.
Qed.

Lemma RT_members : forall m, Forall (fun kv => RT (snd kv)) m ->
  nodup_bytes (map fst m) = true -> wf_members m = true ->
  forall h ms ha, load_members m h = (ms, ha) ->
  forall H f, extends ha H -> (length ha <= f)%nat -> unfold_members f H ms = Some m.
Proof.
  induction m as [|[k x] r IH]; intros HF Hnd Hwf h ms ha Hl H f Hext Hf.
  - cbn in Hl. inversion Hl. reflexivity.
  - inversion HF as [|x' r' Hx Hr]. subst. cbn [snd] in Hx.
    cbn [wf_members] in Hwf. apply andb_true_iff in Hwf. destruct Hwf as [Wx Wr].
    cbn [map fst nodup_bytes] in Hnd. apply andb_true_iff in Hnd. destruct Hnd as [Hk Hnd].
    apply negb_true_iff in Hk.
    rewrite load_members_cons in Hl. destruct (load x h) as [v hb] eqn:Ea.
    destruct (load_members r hb) as [ms' hc] eqn:Eb.
    assert (Hnk : has_key k ms' = false).
    { destruct (has_key k ms') eqn:E; [|reflexivity].
      apply (load_members_keys r hb ms' hc k Eb) in E. rewrite has_key_mem in E. rewrite E in Hk. discriminate. }
    rewrite Hnk in Hl. inversion Hl. subst ms ha. clear Hl.
    assert (Hbc : extends hb hc).
    { assert (HFok : Forall (fun kv => load_ok (snd kv)) r) by (apply Forall_forall; intros; apply load_spec).
      destruct (load_members_ok r HFok hb ms' hc Eb) as [e [He _]]. exists e. exact He. }
    cbn [unfold_members].
    rewrite (Hx Wx h v hb Ea H f (extends_trans _ _ _ Hbc Hext)) by (pose proof (extends_len _ _ Hbc); lia).
    fold (unfold_members f H). rewrite (IH Hr Hnd Wr hb ms' hc Eb H f Hext Hf). reflexivity.
Qed.

Lemma node_at_extends_last : forall ha c H, extends (ha ++ [c]) H -> node_at H (length ha) = c.
Proof.
  intros ha c H [e E]. subst. unfold node_at. rewrite app_nth1 by (rewrite app_length; cbn; lia).
  rewrite app_nth2 by lia. rewrite Nat.sub_diag. reflexivity.
Qed.

Lemma extends_drop_last : forall ha (c : cnode) H, extends (ha ++ [c]) H -> extends ha H.
Proof. intros ha c H [e E]. exists ([c] ++ e). subst. rewrite app_assoc. reflexivity. Qed.

Lemma RT_all : forall j, RT j.
Proof.
  apply json_rect'; unfold RT.
  - intros _ h v h1 Hl H f _ _. cbn in Hl. inversion Hl. destruct f; reflexivity.
  - intros b _ h v h1 Hl H f _ _. cbn in Hl. inversion Hl. destruct f; reflexivity.
  - intros n _ h v h1 Hl H f _ _. cbn in Hl. inversion Hl. destruct f; reflexivity.
  - intros s _ h v h1 Hl H f _ _. cbn in Hl. inversion Hl. destruct f; reflexivity.
  - intros l HF Hwf h v h1 Hl H f Hext Hf. rewrite wf_arr in Hwf. rewrite load_arr_eq in Hl.
    destruct (load_list l h) as [vs ha] eqn:Ea. inversion Hl. subst v h1. clear Hl.
    rewrite app_length in Hf. cbn [length] in Hf.
    destruct f as [|f]; [lia|]. rewrite unfold_ref. rewrite (node_at_extends_last ha _ H Hext).
    rewrite (RT_list l HF Hwf h vs ha Ea H f (extends_drop_last _ _ _ Hext)) by lia. reflexivity.
  - intros m HF Hwf h v h1 Hl H f Hext Hf. rewrite wf_obj in Hwf. apply andb_true_iff in Hwf.
    destruct Hwf as [Hnd Hwm]. rewrite load_obj_eq in Hl.
    destruct (load_members m h) as [ms ha] eqn:Ea. inversion Hl. subst v h1. clear Hl.
    rewrite app_length in Hf. cbn [length] in Hf.
    destruct f as [|f]; [lia|]. rewrite unfold_ref. rewrite (node_at_extends_last ha _ H Hext).
    rewrite (RT_members m HF Hnd Hwm h ms ha Ea H f (extends_drop_last _ _ _ Hext)) by lia. reflexivity.
Qed.

(* lookup commutes with marshalling the members *)
Lemma jget_unfold_members : forall f h rm js k,
  unfold_members f h rm = Some js ->
  jget k js = match hget k rm with Some v => unfold f h v | None => None end.
Proof.
  induction rm as [|[k0 v0] rm IH]; intros js k Hu.
  - cbn in Hu. inversion Hu. reflexivity.
  - cbn [unfold_members] in Hu. destruct (unfold f h v0) as [j0|] eqn:E0; [|discriminate].
    fold (unfold_members f h) in Hu. destruct (unfold_members f h rm) as [js'|] eqn:Er; [|discriminate].
    inversion Hu. subst js. cbn [jget hget]. destruct (bytes_eqb k k0); [symmetry; exact E0|].
    apply IH. reflexivity.
Qed.

(* ---------- 5d. the JSON-level theorem ---------- *)

Definition jfield (k : bytes) (d : json) : option json := match d with JObj m => jget k m | _ => None end.

(* THEOREM jsonpatch_protects.
   Hypotheses: the document is a JSON object whose objects have pairwise distinct member names ([wf],
   true of every document the composer passes, since it comes from a Go map); the operation list was
   accepted by the (repaired) validateJSONPatches; the library returned a document.
   Conclusion: every root member whose name starts with "service" or "publicKey" - in particular the
   members "publicKey" and "service" - is present/absent as before and has the same value. *)
Theorem jsonpatch_protects_prefix : forall ops m d' k,
  wf (JObj m) = true -> jsonpatch_paths_ok ops = true -> jp_apply ops (JObj m) = Ok d' ->
  prot_prefix k = true -> jfield k d' = jget k m.
Proof.
  intros ops m d' k Hwf Hok Happ Hk.
  destruct (paths_ok_unprot ops Hok) as [os [Hdec Hun]].
  destruct (load_root_obj m) as [ms [H [Hl Hroot]]].
  unfold jp_apply in Happ. rewrite Hdec, Hroot in Happ.
  destruct (apply_ops (H ++ [CDoc ms]) (length H) os) as [h'| | |] eqn:Eops; try discriminate.
  destruct (unfold (S (length h')) h' (HRef (length H))) as [j|] eqn:Eun; [|discriminate].
  inversion Happ. subst j. clear Happ.
  destruct (loaded_root_inv prot_prefix m ms H Hl) as [HI [Hcl Hvp]].
  destruct (apply_ops_frame prot_prefix _ _ os _ h' HI Hun Eops) as [_ [Hlen [Hsame Hrootf]]].
  destruct (Hrootf ms (node_at_app_last H (CDoc ms))) as [rm' [Hrm' Hslots]].
  rewrite unfold_ref in Eun. rewrite Hrm' in Eun.
  destruct (unfold_members (length h') h' rm') as [js|] eqn:Ejs; [|discriminate].
  inversion Eun. subst d'. clear Eun. cbn [jfield].
  rewrite (jget_unfold_members _ _ _ _ k Ejs). rewrite (Hslots k Hk).
  (* the source side *)
  rewrite wf_obj in Hwf. apply andb_true_iff in Hwf. destruct Hwf as [Hnd Hwm].
  assert (Hext0 : extends H (H ++ [CDoc ms])) by (exists [CDoc ms]; reflexivity).
  assert (Hf : (length H <= length h')%nat).
  { rewrite app_length in Hlen. lia. }
  assert (HRT : unfold_members (length h') (H ++ [CDoc ms]) ms = Some m).
  { apply (RT_members m) with (h := []) (ha := H); auto.
    apply Forall_forall. intros kv _. apply RT_all. }
  rewrite (jget_unfold_members _ _ _ _ k HRT).
  destruct (hget k ms) as [v|] eqn:Ev; [|reflexivity].
  apply (unfold_frame (Sfun prot_prefix m []) _ h' Hcl Hsame).
  apply (Hvp k v); [apply hget_In; exact Ev|exact Hk].
Qed.

(* the statement asked for: the two sections are untouched *)
Corollary jsonpatch_protects : forall ops m d',
  wf (JObj m) = true -> jsonpatch_paths_ok ops = true -> jp_apply ops (JObj m) = Ok d' ->
  jmember "publicKey" d' = jget (bs "publicKey") m /\ jmember "service" d' = jget (bs "service") m.
Proof.
  intros ops m d' Hwf Hok Happ. split.
  - apply (jsonpatch_protects_prefix ops m d' (bs "publicKey") Hwf Hok Happ). reflexivity.
  - apply (jsonpatch_protects_prefix ops m d' (bs "service") Hwf Hok Happ). reflexivity.
Qed.

(* the composer-level outcome returns the same documents *)
Corollary apply_json_protects : forall ops m d',
  wf (JObj m) = true -> jsonpatch_paths_ok ops = true -> apply_json_outcome ops (JObj m) = Ok d' ->
  jmember "publicKey" d' = jget (bs "publicKey") m /\ jmember "service" d' = jget (bs "service") m.
Proof.
  intros ops m d' Hwf Hok Happ. apply (jsonpatch_protects ops m d' Hwf Hok).
  unfold apply_json_outcome in Happ. destruct (jp_apply ops (JObj m)); try discriminate. exact Happ.
Qed.

(* hypotheses are satisfiable and the conclusion is not trivial: an accepted list that rewrites the rest *)
Example jsonpatch_protects_nonvacuous :
  let ops := JArr [opj "add" "/x" [(bs "value", JObj [(bs "publicKey", jn 7)])];
                   opj "copy" "/y" [(bs "from", S_ "/x")]; opj "remove" "/x/publicKey" []] in
  wf doc_pk = true /\ jsonpatch_paths_ok ops = true
  /\ jp_apply ops doc_pk = Ok (JObj [(bs "publicKey", JArr [JObj [(bs "id", S_ "k1")]]);
                                     (bs "service", JArr [JObj [(bs "id", S_ "s1")]]);
                                     (bs "x", JObj []); (bs "y", JObj [])]).
Proof. repeat split; vm_compute; reflexivity. Qed.
