// Command go2v translates a fixed list of small decision kernels of sidetree-core-go from Go source
// to Gallina definitions (coq/theories/Gen/Kernels.v).  It is re-run by every check so that the
// GenTie proofs are checked against what the source says now.
//
// Supported subset: functions / function literals whose body is a sequence of
//
//	if <cond> { return <expr> }   ...   return <expr>
//
// over integer, boolean and string-emptiness expressions, with parameters of integer type, fields
// of the embedded protocol.Protocol, and (for comparators) fields of the i-th / j-th slice element.
// Anything else aborts the translation of that kernel with an error (the tie is then broken and the
// check's search stage decides).
package main

import (
	"flag"
	"fmt"
	"go/ast"
	"go/parser"
	"go/token"
	"os"
	"path/filepath"
	"sort"
	"strings"
)

type kernel struct {
	Name    string // Gallina name
	Dir     string // package dir relative to repo
	File    string // file name ("" = any file of the package)
	Func    string // function or method name
	Kind    string // "func", "sortless" (n-th func literal passed to sort.Slice/SliceStable inside Func), "guard" (if-condition mentioning Mention inside Func)
	Nth     int
	Mention string
}

var kernels = []kernel{
	{Name: "applier_getAnchorUntil", Dir: "pkg/versions/1_0/operationapplier", Func: "getAnchorUntil", Kind: "func"},
	{Name: "applier_verifyAnchoringTimeRange", Dir: "pkg/versions/1_0/operationapplier", Func: "verifyAnchoringTimeRange", Kind: "func"},
	{Name: "parser_getAnchorUntil", Dir: "pkg/versions/1_0/operationparser", Func: "getAnchorUntil", Kind: "func"},
	{Name: "processor_isOpAfter", Dir: "pkg/processor", Func: "isOpWithTxnGreaterThanOrUnpublished", Kind: "func"},
	{Name: "processor_sortLess", Dir: "pkg/processor", Func: "sortOperations", Kind: "sortless"},
	{Name: "processor_createLess", Dir: "pkg/processor", Func: "Resolve", Kind: "sortless"},
	{Name: "metadata_sortLess", Dir: "pkg/versions/1_0/doctransformer/metadata", Func: "sortOperations", Kind: "sortless"},
	{Name: "processor_versionTimeGuard", Dir: "pkg/processor", Func: "filterOpsByVersionTime", Kind: "guard", Mention: "TransactionTime"},
	{Name: "parser_opSizeGuard", Dir: "pkg/versions/1_0/operationparser", Func: "ParseOperation", Kind: "guard", Mention: "MaxOperationSize"},
	{Name: "parser_hashLenGuard", Dir: "pkg/versions/1_0/operationparser", Func: "validateMultihash", Kind: "guard", Mention: "MaxOperationHashLength"},
	{Name: "parser_deltaSizeGuard", Dir: "pkg/versions/1_0/operationparser", Func: "validateDeltaSize", Kind: "guard", Mention: "MaxDeltaSize"},
	{Name: "parser_nonceGuard", Dir: "pkg/versions/1_0/operationparser", Func: "validateNonce", Kind: "guard", Mention: "NonceSize"},
	{Name: "cutter_min", Dir: "pkg/batch/cutter", Func: "min", Kind: "func"},
	{Name: "cutter_cutGuard", Dir: "pkg/batch/cutter", Func: "Cut", Kind: "guard", Mention: "maxOperationsPerBatch"},
	{Name: "cutter_maxOps", Dir: "pkg/batch/cutter", Func: "Cut", Kind: "assign", Mention: "maxOperationsPerBatch"},
	{Name: "cutter_batchSize", Dir: "pkg/batch/cutter", Func: "Cut", Kind: "assign", Mention: "batchSize"},
	{Name: "provider_mhLenGuard", Dir: "pkg/versions/1_0/txnprovider", Func: "validateRequiredMultihash", Kind: "guard", Mention: "MaxOperationHashLength"},
	{Name: "provider_uriGuard", Dir: "pkg/versions/1_0/txnprovider", Func: "validateURI", Kind: "guard", Mention: "MaxCasURILength"},
	{Name: "provider_sizeGuard", Dir: "pkg/versions/1_0/txnprovider", Func: "readFromCAS", Kind: "guard", Mention: "maxSize", Nth: 0},
	{Name: "provider_decompGuard", Dir: "pkg/versions/1_0/txnprovider", Func: "readFromCAS", Kind: "guard", Mention: "maxDecompressedSize"},
	{Name: "validator_idLenGuard", Dir: "pkg/versions/1_0/operationparser/patchvalidator", Func: "validateID", Kind: "guard", Mention: "maxIDLength"},
	{Name: "validator_serviceTypeLenGuard", Dir: "pkg/versions/1_0/operationparser/patchvalidator", Func: "validateServiceType", Kind: "guard", Mention: "maxServiceTypeLength"},
	{Name: "provider_decompMax", Dir: "pkg/versions/1_0/txnprovider", Func: "readFromCAS", Kind: "assign", Mention: "maxDecompressedSize"},
}

var protoFields = map[string]bool{
	"GenesisTime": true, "MaxOperationCount": true, "MaxOperationSize": true, "MaxOperationHashLength": true, "MaxDeltaSize": true,
	"MaxCasURILength": true, "MaxCoreIndexFileSize": true, "MaxProofFileSize": true, "MaxProvisionalIndexFileSize": true,
	"MaxChunkFileSize": true, "MaxOperationTimeDelta": true, "NonceSize": true, "MaxMemoryDecompressionFactor": true,
}

var opFields = map[string]string{
	"TransactionTime": "time", "TransactionNumber": "num", "CanonicalReference": "cref", "ProtocolVersion": "pver",
}

type tr struct {
	consts   map[string]string // package-level integer constants (name -> literal)
	vars     map[string]bool   // free Z variables (parameters, lens)
	order    []string
	params   map[string]bool   // protocol fields read
	selfFn   map[string]string // method name -> Gallina name (same package)
	elem     map[string]string // slice index var -> a/b
	alias    map[string]string // local name of a slice element (x := ops[i]) -> a/b
	opVars   map[string]bool   // variables denoting an operation record
	boolVars map[string]bool
	usesP    bool
	err      error
}

func (t *tr) fail(format string, a ...interface{}) string {
	if t.err == nil {
		t.err = fmt.Errorf(format, a...)
	}
	return "?"
}

func (t *tr) useVar(n string) string {
	if !t.vars[n] {
		t.vars[n] = true
		t.order = append(t.order, n)
	}
	return n
}

func (t *tr) isString(e ast.Expr) (string, bool) {
	if b, ok := e.(*ast.BasicLit); ok && b.Kind == token.STRING {
		return b.Value, true
	}
	return "", false
}

// expr translates an integer- or boolean-valued expression.
func (t *tr) expr(e ast.Expr) string {
	switch x := e.(type) {
	case *ast.ParenExpr:
		return "(" + t.expr(x.X) + ")"
	case *ast.BasicLit:
		if x.Kind == token.INT {
			return x.Value
		}
		return t.fail("literal %s", x.Value)
	case *ast.Ident:
		switch x.Name {
		case "true", "false":
			return x.Name
		}
		if v, ok := t.consts[x.Name]; ok && !t.vars[x.Name] {
			return v
		}
		return t.useVar(x.Name)
	case *ast.UnaryExpr:
		if x.Op == token.NOT {
			if id, ok := x.X.(*ast.Ident); ok {
				t.boolVars[id.Name] = true
			}
			return "(negb " + t.expr(x.X) + ")"
		}
		if x.Op == token.SUB {
			return "(- " + t.expr(x.X) + ")"
		}
		return t.fail("unary %s", x.Op)
	case *ast.BinaryExpr:
		// string emptiness tests
		if s, ok := t.isString(x.Y); ok && s == `""` {
			l := t.strExpr(x.X)
			switch x.Op {
			case token.EQL:
				return "(" + l + " =? 0)"
			case token.NEQ:
				return "(negb (" + l + " =? 0))"
			}
		}
		l, r := t.expr(x.X), t.expr(x.Y)
		switch x.Op {
		case token.LAND:
			return "(" + l + " && " + r + ")"
		case token.LOR:
			return "(" + l + " || " + r + ")"
		case token.LSS:
			return "(" + l + " <? " + r + ")"
		case token.LEQ:
			return "(" + l + " <=? " + r + ")"
		case token.GTR:
			return "(" + l + " >? " + r + ")"
		case token.GEQ:
			return "(" + l + " >=? " + r + ")"
		case token.EQL:
			return "(" + l + " =? " + r + ")"
		case token.NEQ:
			return "(negb (" + l + " =? " + r + "))"
		case token.ADD:
			return "(" + l + " + " + r + ")"
		case token.SUB:
			return "(" + l + " - " + r + ")"
		case token.MUL:
			return "(" + l + " * " + r + ")"
		}
		return t.fail("binary %s", x.Op)
	case *ast.SelectorExpr:
		return t.selector(x)
	case *ast.CallExpr:
		if id, ok := x.Fun.(*ast.Ident); ok {
			switch id.Name {
			case "int64":
				return "(to_int64 " + t.expr(x.Args[0]) + ")"
			case "uint64":
				return "(to_uint64 " + t.expr(x.Args[0]) + ")"
			case "int", "uint":
				return "(to_" + id.Name + " " + t.expr(x.Args[0]) + ")"
			case "len":
				return t.useVar("len_" + flat(x.Args[0]))
			}
			if g, ok := t.selfFn[id.Name]; ok {
				return t.call(g, x.Args)
			}
			return t.fail("call %s", id.Name)
		}
		if sel, ok := x.Fun.(*ast.SelectorExpr); ok {
			if g, ok := t.selfFn[sel.Sel.Name]; ok {
				return t.call(g, x.Args)
			}
			// vt.Unix() and similar: an opaque integer
			return t.useVar(flat(x))
		}
		return t.fail("call")
	}
	return t.fail("expression %T", e)
}

func (t *tr) call(g string, args []ast.Expr) string {
	t.usesP = true
	s := "(gen_" + g + " p"
	for _, a := range args {
		s += " " + t.expr(a)
	}
	return s + ")"
}

func (t *tr) strExpr(e ast.Expr) string {
	if sel, ok := e.(*ast.SelectorExpr); ok {
		return t.selector(sel)
	}
	return t.fail("string expression %T", e)
}

func (t *tr) selector(x *ast.SelectorExpr) string {
	name := x.Sel.Name
	if protoFields[name] {
		t.params[name] = true
		t.usesP = true
		return "(" + name + " p)"
	}
	if f, ok := opFields[name]; ok {
		switch b := x.X.(type) {
		case *ast.IndexExpr:
			if id, ok := b.Index.(*ast.Ident); ok {
				if v, ok := t.elem[id.Name]; ok {
					return "(" + f + " " + v + ")"
				}
			}
		case *ast.Ident:
			if v, ok := t.alias[b.Name]; ok {
				return "(" + f + " " + v + ")"
			}
			t.opVars[b.Name] = true
			return "(" + f + " " + b.Name + ")"
		}
	}
	return t.fail("selector %s", flat(x))
}

func flat(e ast.Expr) string {
	switch x := e.(type) {
	case *ast.Ident:
		return x.Name
	case *ast.SelectorExpr:
		return flat(x.X) + "_" + x.Sel.Name
	case *ast.CallExpr:
		return flat(x.Fun)
	case *ast.StarExpr:
		return flat(x.X)
	}
	return "x"
}

func (t *tr) ret(e ast.Expr, errType bool) string {
	if errType {
		if id, ok := e.(*ast.Ident); ok && id.Name == "nil" {
			return "true"
		}
		return "false" // any constructed error
	}
	return t.expr(e)
}

// body translates "if c { return e } ... return e".
func (t *tr) body(stmts []ast.Stmt, errType bool) string {
	if len(stmts) == 0 {
		return t.fail("falls off the end")
	}
	switch s := stmts[0].(type) {
	case *ast.ReturnStmt:
		if len(s.Results) != 1 {
			return t.fail("return arity")
		}
		return t.ret(s.Results[0], errType)
	case *ast.IfStmt:
		if s.Init != nil {
			return t.fail("if with init")
		}
		thenB := t.body(s.Body.List, errType)
		var elseB string
		if s.Else != nil {
			if eb, ok := s.Else.(*ast.BlockStmt); ok {
				elseB = t.body(append(append([]ast.Stmt{}, eb.List...), stmts[1:]...), errType)
			} else {
				elseB = t.body(append([]ast.Stmt{s.Else}, stmts[1:]...), errType)
			}
		} else {
			elseB = t.body(stmts[1:], errType)
		}
		return "(if " + t.expr(s.Cond) + " then " + thenB + " else " + elseB + ")"
	case *ast.ExprStmt, *ast.EmptyStmt:
		// logging calls are skipped
		return t.body(stmts[1:], errType)
	case *ast.AssignStmt:
		// local definitions  x := e  /  x, y := e1, e2  (each name defined once, never re-assigned)
		if s.Tok != token.DEFINE || len(s.Lhs) != len(s.Rhs) {
			return t.fail("assignment other than a local definition")
		}
		return t.define(s.Lhs, s.Rhs, stmts[1:], errType)
	case *ast.DeclStmt:
		if gd, ok := s.Decl.(*ast.GenDecl); ok && gd.Tok == token.VAR && len(gd.Specs) == 1 {
			if vs, ok := gd.Specs[0].(*ast.ValueSpec); ok && len(vs.Names) == len(vs.Values) {
				var lhs []ast.Expr
				for _, n := range vs.Names {
					lhs = append(lhs, n)
				}
				return t.define(lhs, vs.Values, stmts[1:], errType)
			}
		}
		return t.fail("declaration")
	}
	return t.fail("statement %T", stmts[0])
}

// define translates local definitions followed by the rest of the body: an alias of a slice element becomes the
// element itself, an integer / boolean definition becomes a let.
func (t *tr) define(lhs, rhs []ast.Expr, rest []ast.Stmt, errType bool) string {
	var lets []string
	for i := range lhs {
		id, ok := lhs[i].(*ast.Ident)
		if !ok {
			return t.fail("definition of a non-identifier")
		}
		if t.vars[id.Name] || t.alias[id.Name] != "" {
			return t.fail("redefinition of %s", id.Name)
		}
		if ix, ok := rhs[i].(*ast.IndexExpr); ok {
			if k, ok := ix.Index.(*ast.Ident); ok {
				if v, ok := t.elem[k.Name]; ok {
					t.alias[id.Name] = v
					continue
				}
			}
			return t.fail("index expression")
		}
		lets = append(lets, "let "+id.Name+" := "+t.expr(rhs[i])+" in ")
	}
	// names become visible only after all right-hand sides (Go evaluates them first)
	for i := range lhs {
		if id := lhs[i].(*ast.Ident); t.alias[id.Name] == "" {
			t.vars[id.Name] = true
		}
	}
	if len(lets) == 0 {
		return t.body(rest, errType)
	}
	return "(" + strings.Join(lets, "") + t.body(rest, errType) + ")"
}

// intConsts collects the package-level constants whose value is an integer literal.
func intConsts(files []*ast.File) map[string]string {
	m := map[string]string{}
	for _, f := range files {
		for _, d := range f.Decls {
			gd, ok := d.(*ast.GenDecl)
			if !ok || gd.Tok != token.CONST {
				continue
			}
			for _, sp := range gd.Specs {
				vs, ok := sp.(*ast.ValueSpec)
				if !ok {
					continue
				}
				for i, n := range vs.Names {
					if i < len(vs.Values) {
						if bl, ok := vs.Values[i].(*ast.BasicLit); ok && bl.Kind == token.INT {
							m[n.Name] = bl.Value
						}
					}
				}
			}
		}
	}
	return m
}

func findFunc(files []*ast.File, name string) *ast.FuncDecl {
	for _, f := range files {
		for _, d := range f.Decls {
			if fd, ok := d.(*ast.FuncDecl); ok && fd.Name.Name == name {
				return fd
			}
		}
	}
	return nil
}

func isErrorType(ft *ast.FuncType) bool {
	if ft.Results == nil || len(ft.Results.List) != 1 {
		return false
	}
	id, ok := ft.Results.List[0].Type.(*ast.Ident)
	return ok && id.Name == "error"
}

func mentions(e ast.Node, name string) bool {
	found := false
	ast.Inspect(e, func(n ast.Node) bool {
		switch x := n.(type) {
		case *ast.Ident:
			if x.Name == name {
				found = true
			}
		}
		return !found
	})
	return found
}

func main() {
	repo := flag.String("repo", "/repo", "repository root")
	out := flag.String("out", "", "output directory (coq/theories/Gen)")
	flag.Parse()
	fset := token.NewFileSet()
	pkgs := map[string][]*ast.File{}
	load := func(dir string) ([]*ast.File, error) {
		if fs, ok := pkgs[dir]; ok {
			return fs, nil
		}
		m, err := parser.ParseDir(fset, filepath.Join(*repo, dir), func(fi os.FileInfo) bool {
			return !strings.HasSuffix(fi.Name(), "_test.go") && !strings.HasSuffix(fi.Name(), "_verif.go")
		}, 0)
		if err != nil {
			return nil, err
		}
		var fs []*ast.File
		var names []string
		for _, p := range m {
			for n := range p.Files {
				names = append(names, n)
			}
		}
		sort.Strings(names)
		for _, n := range names {
			for _, p := range m {
				if f, ok := p.Files[n]; ok {
					fs = append(fs, f)
				}
			}
		}
		pkgs[dir] = fs
		return fs, nil
	}

	var sb strings.Builder
	sb.WriteString("(* GENERATED by /verif/tools/go2v from the Go sources on every run; never edited by hand. *)\n")
	sb.WriteString("From Coq Require Import ZArith Bool List String.\nFrom SV Require Import Parser.Protocol Resolve.Op.\nImport ListNotations.\nLocal Open Scope Z_scope.\nLocal Open Scope bool_scope.\n\n")
	var table []string
	var failures []string
	for _, k := range kernels {
		files, err := load(k.Dir)
		if err != nil {
			failures = append(failures, fmt.Sprintf("%s: %v", k.Name, err))
			continue
		}
		fd := findFunc(files, k.Func)
		if fd == nil {
			failures = append(failures, fmt.Sprintf("%s: function %s not found in %s", k.Name, k.Func, k.Dir))
			continue
		}
		t := &tr{consts: intConsts(files), vars: map[string]bool{}, params: map[string]bool{}, elem: map[string]string{}, alias: map[string]string{}, opVars: map[string]bool{}, boolVars: map[string]bool{},
			selfFn: map[string]string{}}
		for _, o := range kernels {
			if o.Dir == k.Dir && o.Kind == "func" && o.Name != k.Name {
				t.selfFn[o.Func] = o.Name
			}
		}
		var def string
		switch k.Kind {
		case "func":
			var ps []string
			for _, f := range fd.Type.Params.List {
				for _, n := range f.Names {
					if st, ok := f.Type.(*ast.StarExpr); ok && flat(st) == "operation_AnchoredOperation" {
						t.opVars[n.Name] = true
						ps = append(ps, "("+n.Name+" : aop)")
						continue
					}
					ps = append(ps, "("+n.Name+" : Z)")
					t.vars[n.Name] = true
				}
			}
			body := t.body(fd.Body.List, isErrorType(fd.Type))
			for _, v := range t.order {
				if !strings.HasPrefix(v, "len_") {
					if t.err == nil {
						t.fail("free variable %s", v)
					}
				}
			}
			def = fmt.Sprintf("Definition gen_%s (p : proto) %s :=\n  %s.\n", k.Name, strings.Join(ps, " "), body)
		case "sortless":
			var lit *ast.FuncLit
			n := 0
			ast.Inspect(fd.Body, func(nd ast.Node) bool {
				if c, ok := nd.(*ast.CallExpr); ok {
					if sel, ok := c.Fun.(*ast.SelectorExpr); ok && flat(sel.X) == "sort" && (sel.Sel.Name == "Slice" || sel.Sel.Name == "SliceStable") && len(c.Args) == 2 {
						if fl, ok := c.Args[1].(*ast.FuncLit); ok {
							if n == k.Nth {
								lit = fl
							}
							n++
						}
					}
				}
				return true
			})
			if lit == nil {
				failures = append(failures, fmt.Sprintf("%s: no sort comparator in %s", k.Name, k.Func))
				continue
			}
			names := []string{}
			for _, f := range lit.Type.Params.List {
				for _, nm := range f.Names {
					names = append(names, nm.Name)
				}
			}
			if len(names) != 2 {
				failures = append(failures, k.Name+": comparator arity")
				continue
			}
			t.elem[names[0]], t.elem[names[1]] = "a", "b"
			body := t.body(lit.Body.List, false)
			def = fmt.Sprintf("Definition gen_%s (a b : aop) : bool :=\n  %s.\n", k.Name, body)
		case "guard":
			var conds []*ast.IfStmt
			ast.Inspect(fd.Body, func(nd ast.Node) bool {
				if is, ok := nd.(*ast.IfStmt); ok && (mentions(is.Cond, k.Mention) || (is.Init != nil && mentions(is.Init, k.Mention))) {
					conds = append(conds, is)
				}
				return true
			})
			if len(conds) <= k.Nth {
				failures = append(failures, fmt.Sprintf("%s: no guard mentioning %s in %s", k.Name, k.Mention, k.Func))
				continue
			}
			var body string
			if init := conds[k.Nth].Init; init != nil {
				// if x := e; cond  -  the definition is a let around the condition
				as, ok := init.(*ast.AssignStmt)
				if !ok || as.Tok != token.DEFINE || len(as.Lhs) != len(as.Rhs) {
					t.fail("if with an init statement other than a definition")
				} else {
					body = t.define(as.Lhs, as.Rhs, []ast.Stmt{&ast.ReturnStmt{Results: []ast.Expr{conds[k.Nth].Cond}}}, false)
				}
			} else {
				body = t.expr(conds[k.Nth].Cond)
			}
			var ps []string
			sort.Strings(t.order) // parameter order must not depend on the order of first use in the expression
			for _, v := range t.order {
				if t.boolVars[v] {
					ps = append(ps, "("+v+" : bool)")
				} else {
					ps = append(ps, "("+v+" : Z)")
				}
			}
			for v := range t.opVars {
				ps = append(ps, "("+v+" : aop)")
			}
			def = fmt.Sprintf("Definition gen_%s (p : proto) %s : bool :=\n  %s.\n", k.Name, strings.Join(ps, " "), body)
		case "assign":
			var rhs ast.Expr
			ast.Inspect(fd.Body, func(nd ast.Node) bool {
				if as, ok := nd.(*ast.AssignStmt); ok && rhs == nil && len(as.Lhs) == 1 && len(as.Rhs) == 1 && flat(as.Lhs[0]) == k.Mention {
					rhs = as.Rhs[0]
				}
				return true
			})
			if rhs == nil {
				failures = append(failures, fmt.Sprintf("%s: no assignment to %s in %s", k.Name, k.Mention, k.Func))
				continue
			}
			body := t.expr(rhs)
			var ps []string
			sort.Strings(t.order)
			for _, v := range t.order {
				ps = append(ps, "("+v+" : Z)")
			}
			def = fmt.Sprintf("Definition gen_%s (p : proto) %s : Z :=\n  %s.\n", k.Name, strings.Join(ps, " "), body)
		}
		if t.err != nil {
			failures = append(failures, fmt.Sprintf("%s: outside the translated subset: %v", k.Name, t.err))
			continue
		}
		sb.WriteString(fmt.Sprintf("(* %s %s.%s *)\n", k.Kind, k.Dir, k.Func))
		sb.WriteString(def + "\n")
		var ps []string
		for f := range t.params {
			ps = append(ps, `"`+f+`"%string`)
		}
		sort.Strings(ps)
		table = append(table, fmt.Sprintf("  (\"%s\"%%string, [%s])", k.Name, strings.Join(ps, "; ")))
	}
	sb.WriteString("(* protocol parameters each kernel reads *)\n")
	sb.WriteString("Definition param_table : list (string * list string) := [\n" + strings.Join(table, ";\n") + "\n].\n")
	if *out != "" {
		must(os.MkdirAll(*out, 0o755))
		path := filepath.Join(*out, "Kernels.v")
		old, _ := os.ReadFile(path)
		if string(old) != sb.String() {
			must(os.WriteFile(path, []byte(sb.String()), 0o644))
		}
	} else {
		fmt.Print(sb.String())
	}
	if len(failures) > 0 {
		for _, f := range failures {
			fmt.Println("go2v:", f)
		}
		os.Exit(1)
	}
}

func must(err error) {
	if err != nil {
		fmt.Println("go2v:", err)
		os.Exit(2)
	}
}
